// check runs the verification of one property (parent mode), one job (worker
// mode, -job) or replays a recorded violation.
package main

import (
	"encoding/json"
	"flag"
	"fmt"
	"os"
	"path/filepath"
	"strconv"
	"time"

	"verif/check"
	_ "verif/props"
	"verif/vrt"
)

func main() {
	job := flag.String("job", "", "worker mode: job JSON")
	root := flag.String("root", "/verif", "verif root")
	race := flag.String("race-exe", "", "path of the -race build of this binary")
	flag.Parse()
	if err := vrt.SelfTest(); err != nil {
		fmt.Fprintln(os.Stderr, "engine self-test failed:", err)
		os.Exit(2)
	}
	if *job != "" {
		vrt.StartWatchdog(20 * time.Second)
		os.Exit(check.RunWorker(*job))
	}
	args := flag.Args()
	if len(args) >= 2 && args[0] == "replay" {
		os.Exit(replay(args[1]))
	}
	if len(args) < 2 {
		fmt.Fprintln(os.Stderr, "usage: check <property> <quick|thorough> | check replay <file> ; properties:", check.Props())
		os.Exit(2)
	}
	seed, _ := strconv.ParseInt(os.Getenv("VERIF_SEED"), 10, 64)
	exe, _ := os.Executable()
	os.Exit(check.RunProperty(*root, args[0], args[1], seed, exe, *race))
}

func replay(path string) int {
	b, err := os.ReadFile(path)
	if err != nil {
		fmt.Fprintln(os.Stderr, err)
		return 2
	}
	var v check.Violation
	if err := json.Unmarshal(b, &v); err != nil || v.Job == nil {
		fmt.Fprintln(os.Stderr, "not a replay file:", path, err)
		return 2
	}
	j := *v.Job
	j.Replay = v.Replay
	j.Verbose = true
	fmt.Printf("replaying %s: scenario=%s oracle=%s detail=%s\n", filepath.Base(path), v.Scenario, v.Oracle, v.Detail)
	jb, _ := json.Marshal(j)
	return check.RunWorker(string(jb))
}
