// vinstr rewrites the current sources of hagall (and of the two library
// packages whose synchronisation is part of the connection plumbing) so that
// they run under the controlled scheduler of package vrt, and emits a
// `go build -overlay` file. Nothing is written to /repo.
//
//	T1 import "sync"  -> verif/vrt/vsync
//	T2 import "time"  -> verif/vrt/vtime
//	T3 go f(x)        -> vrt.Go(label, func(){ f(x) })
//	T4 channel send / receive / close / range / select -> scheduling points
//	T5 range over a map -> deterministic (and explorable) order
//	T6 import "sync/atomic" -> verif/vrt/vatomic (a scheduling point before every atomic operation)
//
// The rewrite is purely structural: no identifier of hagall is named.
package main

import (
	"bytes"
	"encoding/json"
	"flag"
	"fmt"
	"go/ast"
	"go/format"
	"go/token"
	"go/types"
	"os"
	"path/filepath"
	"strconv"
	"strings"

	"golang.org/x/tools/go/ast/astutil"
	"golang.org/x/tools/go/packages"
)

const (
	vrtPath   = "verif/vrt"
	vsyncPath = "verif/vrt/vsync"
	vtimePath = "verif/vrt/vtime"
	vatomPath = "verif/vrt/vatomic"
)

type pkgSpec struct {
	pattern string
	time    bool // T2
	full    bool // T3-T5
}

var specs = []pkgSpec{
	{"github.com/aukilabs/hagall/...", true, true},
	{"github.com/aukilabs/hagall-common/websocket", true, true},
	{"golang.org/x/net/websocket", false, false},
	{"github.com/aukilabs/hagall-common/hdsclient", false, false}, // T1: the lock around the server secret (C15 under re-registration)
}

func main() {
	out := flag.String("out", ".build/overlay", "output directory")
	extra := flag.String("extra", "", "directory with extra files to add to packages: <dir>/<import path>/*.go")
	flag.Parse()
	if err := run(*out, *extra); err != nil {
		fmt.Fprintln(os.Stderr, "vinstr:", err)
		os.Exit(2)
	}
}

func run(out, extra string) error {
	if err := os.RemoveAll(out); err != nil {
		return err
	}
	if err := os.MkdirAll(out, 0o755); err != nil {
		return err
	}
	cfg := &packages.Config{
		Mode:  packages.NeedName | packages.NeedFiles | packages.NeedCompiledGoFiles | packages.NeedSyntax | packages.NeedTypes | packages.NeedTypesInfo | packages.NeedImports | packages.NeedDeps,
		Tests: false,
	}
	var patterns []string
	for _, s := range specs {
		patterns = append(patterns, s.pattern)
	}
	pkgs, err := packages.Load(cfg, patterns...)
	if err != nil {
		return err
	}
	overlay := map[string]string{}
	nfiles := 0
	stats := map[string]int{}
	for _, p := range pkgs {
		if len(p.Errors) > 0 {
			return fmt.Errorf("package %s does not type-check: %v", p.PkgPath, p.Errors[0])
		}
		if p.Name == "main" {
			continue
		}
		spec := specFor(p.PkgPath)
		for i, f := range p.Syntax {
			path := p.CompiledGoFiles[i]
			if strings.HasSuffix(path, "_test.go") {
				continue
			}
			rw := &rewriter{pkg: p, file: f, spec: spec, stats: stats}
			if err := rw.rewrite(); err != nil {
				return fmt.Errorf("%s: %v", path, err)
			}
			if !rw.changed {
				continue
			}
			var buf bytes.Buffer
			if err := format.Node(&buf, p.Fset, f); err != nil {
				return fmt.Errorf("%s: print: %v", path, err)
			}
			rel := filepath.Join(strings.ReplaceAll(p.PkgPath, "/", "_"), filepath.Base(path))
			dst := filepath.Join(out, rel)
			if err := os.MkdirAll(filepath.Dir(dst), 0o755); err != nil {
				return err
			}
			if err := os.WriteFile(dst, buf.Bytes(), 0o644); err != nil {
				return err
			}
			abs, _ := filepath.Abs(dst)
			overlay[path] = abs
			nfiles++
		}
		// extra files (export shims) for this package
		if extra != "" {
			dir := filepath.Join(extra, p.PkgPath)
			if ents, err := os.ReadDir(dir); err == nil && len(p.GoFiles) > 0 {
				pdir := filepath.Dir(p.GoFiles[0])
				for _, e := range ents {
					if strings.HasSuffix(e.Name(), ".go") {
						abs, _ := filepath.Abs(filepath.Join(dir, e.Name()))
						overlay[filepath.Join(pdir, "zz_verif_"+e.Name())] = abs
					}
				}
			}
		}
	}
	b, _ := json.MarshalIndent(map[string]any{"Replace": overlay}, "", " ")
	if err := os.WriteFile(filepath.Join(out, "overlay.json"), b, 0o644); err != nil {
		return err
	}
	sb, _ := json.Marshal(stats)
	fmt.Printf("vinstr: %d files rewritten, %s\n", nfiles, sb)
	return nil
}

func specFor(path string) pkgSpec {
	for _, s := range specs {
		pat := strings.TrimSuffix(s.pattern, "/...")
		if path == pat || strings.HasPrefix(path, pat+"/") {
			return s
		}
	}
	return pkgSpec{}
}

type rewriter struct {
	pkg     *packages.Package
	file    *ast.File
	spec    pkgSpec
	changed bool
	needVrt bool
	tmp     int
	stats   map[string]int
	err     error
	goOrd   map[string]int
	commOf  map[ast.Stmt]bool
}

func (r *rewriter) fresh(prefix string) *ast.Ident {
	r.tmp++
	return ast.NewIdent(fmt.Sprintf("vrt%s%d", prefix, r.tmp))
}

func (r *rewriter) typeOf(e ast.Expr) types.Type { return r.pkg.TypesInfo.TypeOf(e) }

func (r *rewriter) isConstOrNil(e ast.Expr) bool {
	tv, ok := r.pkg.TypesInfo.Types[e]
	if !ok {
		return false
	}
	return tv.Value != nil || tv.IsNil()
}

func (r *rewriter) isChan(e ast.Expr) bool {
	t := r.typeOf(e)
	if t == nil {
		return false
	}
	_, ok := t.Underlying().(*types.Chan)
	return ok
}

func (r *rewriter) isMap(e ast.Expr) bool {
	t := r.typeOf(e)
	if t == nil {
		return false
	}
	_, ok := t.Underlying().(*types.Map)
	return ok
}

func vrtCall(name string, args ...ast.Expr) *ast.CallExpr {
	return &ast.CallExpr{Fun: &ast.SelectorExpr{X: ast.NewIdent("vrt"), Sel: ast.NewIdent(name)}, Args: args}
}

func (r *rewriter) rewrite() error {
	// T1/T2: imports
	for _, imp := range r.file.Imports {
		p, _ := strconv.Unquote(imp.Path.Value)
		switch {
		case p == "sync":
			r.setImport(imp, vsyncPath, "sync")
		case p == "time" && r.spec.time:
			r.setImport(imp, vtimePath, "time")
		case p == "sync/atomic" && r.spec.full:
			r.setImport(imp, vatomPath, "atomic")
		}
	}
	if r.spec.full {
		r.goOrd = map[string]int{}
		r.commOf = map[ast.Stmt]bool{}
		ast.Inspect(r.file, func(n ast.Node) bool {
			if cc, ok := n.(*ast.CommClause); ok && cc.Comm != nil {
				r.commOf[cc.Comm] = true
			}
			return true
		})
		var funcStack []string
		astutil.Apply(r.file, func(c *astutil.Cursor) bool {
			if fd, ok := c.Node().(*ast.FuncDecl); ok {
				funcStack = append(funcStack, r.funcName(fd))
			}
			return true
		}, func(c *astutil.Cursor) bool {
			if _, ok := c.Node().(*ast.FuncDecl); ok {
				funcStack = funcStack[:len(funcStack)-1]
				return true
			}
			fn := ""
			if len(funcStack) > 0 {
				fn = funcStack[len(funcStack)-1]
			}
			r.post(c, fn)
			return r.err == nil
		})
		if r.err != nil {
			return r.err
		}
	}
	if r.needVrt {
		astutil.AddNamedImport(r.pkg.Fset, r.file, "vrt", vrtPath)
		r.changed = true
	}
	return nil
}

func (r *rewriter) setImport(imp *ast.ImportSpec, path, defName string) {
	if imp.Name == nil {
		imp.Name = ast.NewIdent(defName)
	}
	imp.Path.Value = strconv.Quote(path)
	imp.EndPos = 0
	r.changed = true
	r.stats["imports"]++
}

func (r *rewriter) funcName(fd *ast.FuncDecl) string {
	name := r.pkg.Name + "."
	if fd.Recv != nil && len(fd.Recv.List) > 0 {
		t := fd.Recv.List[0].Type
		if s, ok := t.(*ast.StarExpr); ok {
			t = s.X
		}
		if ix, ok := t.(*ast.IndexExpr); ok {
			t = ix.X
		}
		if id, ok := t.(*ast.Ident); ok {
			name += id.Name + "."
		}
	}
	return name + fd.Name.Name
}

// post is called in post-order, so inner nodes are already rewritten.
func (r *rewriter) post(c *astutil.Cursor, fn string) {
	switch n := c.Node().(type) {
	case *ast.GoStmt:
		r.rewriteGo(c, n, fn)
	case *ast.SendStmt:
		// a send that is the comm of a select clause is handled by the select
		if _, ok := c.Parent().(*ast.CommClause); ok {
			return
		}
		r.rewriteSend(c, n)
	case *ast.UnaryExpr:
		if n.Op != token.ARROW {
			return
		}
		if r.inComm(c) {
			return
		}
		r.rewriteRecv(c, n)
	case *ast.CallExpr:
		if id, ok := n.Fun.(*ast.Ident); ok && id.Name == "close" && len(n.Args) == 1 {
			if _, isBuiltin := r.pkg.TypesInfo.Uses[id].(*types.Builtin); isBuiltin {
				r.rewriteClose(c, n)
			}
		}
	case *ast.RangeStmt:
		if r.isChan(n.X) {
			r.rewriteRangeChan(c, n)
		} else if r.isMap(n.X) {
			r.rewriteRangeMap(c, n)
		}
	case *ast.SelectStmt:
		r.rewriteSelect(c, n)
	}
}

// inComm reports whether the receive expression is (part of) the comm
// statement of a select clause: `case <-ch:`, `case v := <-ch:`, `case v, ok = <-ch:`.
func (r *rewriter) inComm(c *astutil.Cursor) bool {
	switch p := c.Parent().(type) {
	case *ast.ExprStmt:
		return r.commOf[p]
	case *ast.AssignStmt:
		return r.commOf[p]
	}
	return false
}

func (r *rewriter) rewriteGo(c *astutil.Cursor, g *ast.GoStmt, fn string) {
	ord := r.goOrd[fn]
	r.goOrd[fn] = ord + 1
	call := g.Call
	callee := ""
	switch f := call.Fun.(type) {
	case *ast.SelectorExpr:
		callee = ":" + f.Sel.Name
	case *ast.Ident:
		callee = ":" + f.Name
	}
	label := &ast.BasicLit{Kind: token.STRING, Value: strconv.Quote(fmt.Sprintf("%s#%d%s", fn, ord, callee))}
	var stmts []ast.Stmt
	var fun ast.Expr = call.Fun
	if _, isLit := call.Fun.(*ast.FuncLit); !isLit {
		if tv, ok := r.pkg.TypesInfo.Types[call.Fun]; ok && (tv.IsBuiltin() || tv.IsType()) {
			r.err = fmt.Errorf("go statement on builtin/conversion not supported")
			return
		}
		f := r.fresh("fn")
		stmts = append(stmts, &ast.AssignStmt{Lhs: []ast.Expr{f}, Tok: token.DEFINE, Rhs: []ast.Expr{call.Fun}})
		fun = f
	}
	var args []ast.Expr
	for _, a := range call.Args {
		if r.isConstOrNil(a) {
			args = append(args, a)
			continue
		}
		t := r.fresh("a")
		stmts = append(stmts, &ast.AssignStmt{Lhs: []ast.Expr{t}, Tok: token.DEFINE, Rhs: []ast.Expr{a}})
		args = append(args, t)
	}
	inner := &ast.CallExpr{Fun: fun, Args: args, Ellipsis: call.Ellipsis}
	body := &ast.FuncLit{Type: &ast.FuncType{Params: &ast.FieldList{}}, Body: &ast.BlockStmt{List: []ast.Stmt{&ast.ExprStmt{X: inner}}}}
	stmts = append(stmts, &ast.ExprStmt{X: vrtCall("Go", label, body)})
	c.Replace(&ast.BlockStmt{List: stmts})
	r.needVrt = true
	r.stats["go"]++
}

func (r *rewriter) rewriteSend(c *astutil.Cursor, s *ast.SendStmt) {
	t := r.fresh("ch")
	c.Replace(&ast.BlockStmt{List: []ast.Stmt{
		&ast.AssignStmt{Lhs: []ast.Expr{t}, Tok: token.DEFINE, Rhs: []ast.Expr{s.Chan}},
		&ast.ExprStmt{X: vrtCall("BeforeSend", t)},
		&ast.SendStmt{Chan: t, Value: s.Value},
	}})
	r.needVrt = true
	r.stats["send"]++
}

func (r *rewriter) rewriteRecv(c *astutil.Cursor, u *ast.UnaryExpr) {
	name := "Recv"
	if as, ok := c.Parent().(*ast.AssignStmt); ok && len(as.Lhs) == 2 && len(as.Rhs) == 1 && as.Rhs[0] == u {
		name = "Recv2"
	}
	if vs, ok := c.Parent().(*ast.ValueSpec); ok && len(vs.Names) == 2 && len(vs.Values) == 1 && vs.Values[0] == u {
		name = "Recv2"
	}
	c.Replace(vrtCall(name, u.X))
	r.needVrt = true
	r.stats["recv"]++
}

func (r *rewriter) rewriteClose(c *astutil.Cursor, call *ast.CallExpr) {
	if _, ok := c.Parent().(*ast.ExprStmt); !ok {
		return // close used in defer/go: leave (no scheduling point)
	}
	// handled at statement level: replace the call by a func literal call
	// that does point + close, keeping single evaluation of the operand.
	t := r.fresh("ch")
	lit := &ast.FuncLit{
		Type: &ast.FuncType{Params: &ast.FieldList{}},
		Body: &ast.BlockStmt{List: []ast.Stmt{
			&ast.AssignStmt{Lhs: []ast.Expr{t}, Tok: token.DEFINE, Rhs: []ast.Expr{call.Args[0]}},
			&ast.ExprStmt{X: vrtCall("BeforeClose", t)},
			&ast.ExprStmt{X: &ast.CallExpr{Fun: ast.NewIdent("close"), Args: []ast.Expr{t}}},
		}},
	}
	c.Replace(&ast.CallExpr{Fun: lit})
	r.needVrt = true
	r.stats["close"]++
}

func isBlank(e ast.Expr) bool {
	id, ok := e.(*ast.Ident)
	return ok && id.Name == "_"
}

func (r *rewriter) rewriteRangeChan(c *astutil.Cursor, n *ast.RangeStmt) {
	okv := r.fresh("ok")
	var recv ast.Stmt
	call := vrtCall("Recv2", n.X)
	switch {
	case n.Key == nil || isBlank(n.Key):
		recv = &ast.AssignStmt{Lhs: []ast.Expr{ast.NewIdent("_"), okv}, Tok: token.DEFINE, Rhs: []ast.Expr{call}}
	case n.Tok == token.DEFINE:
		recv = &ast.AssignStmt{Lhs: []ast.Expr{n.Key, okv}, Tok: token.DEFINE, Rhs: []ast.Expr{call}}
	default:
		r.err = fmt.Errorf("range over channel with assignment form not supported")
		return
	}
	brk := &ast.IfStmt{Cond: &ast.UnaryExpr{Op: token.NOT, X: okv}, Body: &ast.BlockStmt{List: []ast.Stmt{&ast.BranchStmt{Tok: token.BREAK}}}}
	body := &ast.BlockStmt{List: append([]ast.Stmt{recv, brk}, n.Body.List...)}
	c.Replace(&ast.ForStmt{Body: body})
	r.needVrt = true
	r.stats["rangechan"]++
}

func pureExpr(e ast.Expr) bool {
	switch x := e.(type) {
	case *ast.Ident:
		return true
	case *ast.SelectorExpr:
		return pureExpr(x.X)
	case *ast.ParenExpr:
		return pureExpr(x.X)
	case *ast.StarExpr:
		return pureExpr(x.X)
	case *ast.IndexExpr:
		return pureExpr(x.X) && pureExpr(x.Index)
	case *ast.BasicLit:
		return true
	}
	return false
}

func (r *rewriter) rewriteRangeMap(c *astutil.Cursor, n *ast.RangeStmt) {
	var pre []ast.Stmt
	m := n.X
	if !pureExpr(m) {
		if _, labeled := c.Parent().(*ast.LabeledStmt); labeled {
			r.err = fmt.Errorf("labeled range over a non-trivial map expression not supported")
			return
		}
		t := r.fresh("m")
		pre = append(pre, &ast.AssignStmt{Lhs: []ast.Expr{t}, Tok: token.DEFINE, Rhs: []ast.Expr{m}})
		m = t
	}
	keys := vrtCall("MapKeys", m)
	var head []ast.Stmt
	var keyVar ast.Expr
	wantKey := n.Key != nil && !isBlank(n.Key)
	wantVal := n.Value != nil && !isBlank(n.Value)
	if !wantKey && !wantVal {
		// for range m: body runs len(m) times at most (entries deleted meanwhile are skipped)
		kv := r.fresh("k")
		okv := r.fresh("ok")
		head = append(head, &ast.AssignStmt{Lhs: []ast.Expr{ast.NewIdent("_"), okv}, Tok: token.DEFINE, Rhs: []ast.Expr{&ast.IndexExpr{X: m, Index: kv}}},
			&ast.IfStmt{Cond: &ast.UnaryExpr{Op: token.NOT, X: okv}, Body: &ast.BlockStmt{List: []ast.Stmt{&ast.BranchStmt{Tok: token.CONTINUE}}}})
		n.Key, n.Value, n.Tok = ast.NewIdent("_"), kv, token.DEFINE
		n.X = keys
		n.Body.List = append(head, n.Body.List...)
	} else {
		kv := r.fresh("k")
		keyVar = kv
		okv := r.fresh("ok")
		valTmp := r.fresh("v")
		lookupLhs := ast.Expr(ast.NewIdent("_"))
		if wantVal {
			lookupLhs = valTmp
		}
		head = append(head, &ast.AssignStmt{Lhs: []ast.Expr{lookupLhs, okv}, Tok: token.DEFINE, Rhs: []ast.Expr{&ast.IndexExpr{X: m, Index: keyVar}}},
			&ast.IfStmt{Cond: &ast.UnaryExpr{Op: token.NOT, X: okv}, Body: &ast.BlockStmt{List: []ast.Stmt{&ast.BranchStmt{Tok: token.CONTINUE}}}})
		if wantKey {
			head = append(head, &ast.AssignStmt{Lhs: []ast.Expr{n.Key}, Tok: n.Tok, Rhs: []ast.Expr{kv}})
			if n.Tok == token.DEFINE {
				head = append(head, &ast.AssignStmt{Lhs: []ast.Expr{ast.NewIdent("_")}, Tok: token.ASSIGN, Rhs: []ast.Expr{n.Key}})
			}
		}
		if wantVal {
			head = append(head, &ast.AssignStmt{Lhs: []ast.Expr{n.Value}, Tok: n.Tok, Rhs: []ast.Expr{valTmp}})
			if n.Tok == token.DEFINE {
				head = append(head, &ast.AssignStmt{Lhs: []ast.Expr{ast.NewIdent("_")}, Tok: token.ASSIGN, Rhs: []ast.Expr{n.Value}})
			}
		}
		n.Key, n.Value, n.Tok = ast.NewIdent("_"), kv, token.DEFINE
		n.X = keys
		n.Body.List = append(head, n.Body.List...)
	}
	if len(pre) > 0 {
		c.Replace(&ast.BlockStmt{List: append(pre, n)})
	}
	r.needVrt = true
	r.stats["rangemap"]++
}

func (r *rewriter) rewriteSelect(c *astutil.Cursor, s *ast.SelectStmt) {
	var pre []ast.Stmt
	var cases []ast.Expr
	var clauses []ast.Stmt
	hasDefault := false
	idx := 0
	for _, st := range s.Body.List {
		cc := st.(*ast.CommClause)
		if cc.Comm == nil {
			hasDefault = true
			clauses = append(clauses, &ast.CaseClause{List: nil, Body: cc.Body})
			continue
		}
		tch := r.fresh("ch")
		var comm ast.Stmt
		switch cm := cc.Comm.(type) {
		case *ast.SendStmt:
			pre = append(pre, &ast.AssignStmt{Lhs: []ast.Expr{tch}, Tok: token.DEFINE, Rhs: []ast.Expr{cm.Chan}})
			val := cm.Value
			if !r.isConstOrNil(val) {
				tv := r.fresh("v")
				pre = append(pre, &ast.AssignStmt{Lhs: []ast.Expr{tv}, Tok: token.DEFINE, Rhs: []ast.Expr{val}})
				val = tv
			}
			cases = append(cases, vrtCall("CaseSend", tch))
			comm = &ast.SendStmt{Chan: tch, Value: val}
		case *ast.ExprStmt:
			u := unparen(cm.X).(*ast.UnaryExpr)
			pre = append(pre, &ast.AssignStmt{Lhs: []ast.Expr{tch}, Tok: token.DEFINE, Rhs: []ast.Expr{u.X}})
			cases = append(cases, vrtCall("CaseRecv", tch))
			comm = &ast.ExprStmt{X: &ast.UnaryExpr{Op: token.ARROW, X: tch}}
		case *ast.AssignStmt:
			u := unparen(cm.Rhs[0]).(*ast.UnaryExpr)
			pre = append(pre, &ast.AssignStmt{Lhs: []ast.Expr{tch}, Tok: token.DEFINE, Rhs: []ast.Expr{u.X}})
			cases = append(cases, vrtCall("CaseRecv", tch))
			comm = &ast.AssignStmt{Lhs: cm.Lhs, Tok: cm.Tok, Rhs: []ast.Expr{&ast.UnaryExpr{Op: token.ARROW, X: tch}}}
			if cm.Tok == token.DEFINE {
				// keep "declared and not used" away for variables the body ignores
				body := []ast.Stmt{comm}
				for _, l := range cm.Lhs {
					if !isBlank(l) {
						body = append(body, &ast.AssignStmt{Lhs: []ast.Expr{ast.NewIdent("_")}, Tok: token.ASSIGN, Rhs: []ast.Expr{l}})
					}
				}
				clauses = append(clauses, &ast.CaseClause{List: []ast.Expr{&ast.BasicLit{Kind: token.INT, Value: strconv.Itoa(idx)}}, Body: append(body, cc.Body...)})
				idx++
				continue
			}
		default:
			r.err = fmt.Errorf("unsupported select comm clause %T", cm)
			return
		}
		clauses = append(clauses, &ast.CaseClause{List: []ast.Expr{&ast.BasicLit{Kind: token.INT, Value: strconv.Itoa(idx)}}, Body: append([]ast.Stmt{comm}, cc.Body...)})
		idx++
	}
	def := "false"
	if hasDefault {
		def = "true"
	} else {
		// keeps the switch a terminating statement where the select was one
		clauses = append(clauses, &ast.CaseClause{List: nil, Body: []ast.Stmt{&ast.ExprStmt{X: &ast.CallExpr{Fun: ast.NewIdent("panic"), Args: []ast.Expr{&ast.BasicLit{Kind: token.STRING, Value: strconv.Quote("vrt: select index out of range")}}}}}})
	}
	sw := &ast.SwitchStmt{
		Tag:  vrtCall("Select", append([]ast.Expr{ast.NewIdent(def)}, cases...)...),
		Body: &ast.BlockStmt{List: clauses},
	}
	var repl ast.Stmt = sw
	if lbl, ok := c.Parent().(*ast.LabeledStmt); ok {
		// `L: select {...}` with `break L` inside: keep the label on the switch
		if len(pre) > 0 {
			r.err = fmt.Errorf("labeled select not supported")
			return
		}
		_ = lbl
	} else if len(pre) > 0 {
		repl = &ast.BlockStmt{List: append(pre, sw)}
	}
	c.Replace(repl)
	r.needVrt = true
	r.stats["select"]++
}

func unparen(e ast.Expr) ast.Expr {
	for {
		p, ok := e.(*ast.ParenExpr)
		if !ok {
			return e
		}
		e = p.X
	}
}
