package main

import (
	"fmt"
	"time"

	"github.com/aukilabs/hagall-common/messages/hagallpb"
	"google.golang.org/protobuf/encoding/prototext"

	"verif/vrt"
	"verif/world"
)

type def struct{}

func (def) Choose(idx int, cp *vrt.ChoicePoint) int { return 0 }

func show(name string, rs []*world.Recv) {
	for _, r := range rs {
		s := ""
		if r.Msg != nil {
			s = prototext.MarshalOptions{Multiline: false}.Format(r.Msg)
		}
		fmt.Printf("  %s <- type=%d %s\n", name, r.Type, s)
	}
}

func main() {
	if err := vrt.SelfTest(); err != nil {
		panic(err)
	}
	t0 := time.Now()
	n := 0
	for iter := 0; iter < 2000; iter++ {
		verbose := iter == 0
		w := world.New(world.Config{Modules: []string{"vikja", "odal", "dagaz"}}, def{})
		w.S.NoPreempt = true
		w.S.TraceOn = verbose
		a := w.Connect("a")
		b := w.Connect("b")
		w.Run()
		a.SendMsg(&hagallpb.ParticipantJoinRequest{Type: hagallpb.MsgType_MSG_TYPE_PARTICIPANT_JOIN_REQUEST, Timestamp: w.NextTS(), RequestId: a.NextReqID()})
		w.Run()
		ra := a.Take()
		if verbose {
			show("a", ra)
		}
		sid := ra[0].Msg.(*hagallpb.ParticipantJoinResponse).SessionId
		b.SendMsg(&hagallpb.ParticipantJoinRequest{Type: hagallpb.MsgType_MSG_TYPE_PARTICIPANT_JOIN_REQUEST, Timestamp: w.NextTS(), RequestId: b.NextReqID(), SessionId: sid})
		w.Run()
		a.SendMsg(&hagallpb.EntityAddRequest{Type: hagallpb.MsgType_MSG_TYPE_ENTITY_ADD_REQUEST, Timestamp: w.NextTS(), RequestId: a.NextReqID(), Pose: &hagallpb.Pose{Px: 1}})
		w.Run()
		a.SendMsg(&hagallpb.EntityUpdatePose{Type: hagallpb.MsgType_MSG_TYPE_ENTITY_UPDATE_POSE, Timestamp: w.NextTS(), EntityId: 1, Pose: &hagallpb.Pose{Px: 2}})
		w.Run()
		w.Tick(15 * time.Millisecond)
		if verbose {
			show("a", a.Take())
			show("b", b.Take())
		}
		left := w.Finish()
		if verbose {
			show("a", a.Take())
			show("b", b.Take())
			fmt.Println("steps", w.S.Steps, "points", len(w.S.Points), "threads", len(w.S.Threads), "left", left)
			for _, t := range w.S.Threads {
				fmt.Println("  thread", t.ID, t.Label, "steps", t.Steps, "done", t.Done())
			}
			fmt.Println("disconnects", a.Disconnects, b.Disconnects, a.HandlerReturned, b.HandlerReturned, a.HandlerPanic, b.HandlerPanic)
		}
		n++
	}
	fmt.Printf("%d executions in %v\n", n, time.Since(t0))
}
