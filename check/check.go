// Package check is the job / evidence / findings framework shared by all
// property checks.
package check

import (
	"bufio"
	"bytes"
	"crypto/sha1"
	"encoding/json"
	"fmt"
	"os"
	"os/exec"
	"path/filepath"
	"runtime"
	"sort"
	"strings"
	"sync"
	"sync/atomic"
	"time"
)

// Job is one unit of work executed in a worker process.
type Job struct {
	Prop   string          `json:"prop"`
	Kind   string          `json:"kind"` // registry key
	Name   string          `json:"name"` // scenario / family name
	Tier   string          `json:"tier"`
	Params json.RawMessage `json:"params,omitempty"`
	// Replay, when set, asks for a single execution.
	Replay *Replay `json:"replay,omitempty"`
	// BudgetS is the wall-clock budget of this job in seconds (0 = none).
	BudgetS int  `json:"budget_s,omitempty"`
	Race    bool `json:"race,omitempty"` // run in the -race binary
	// CrashIsViolation: the server process must keep running; a worker that
	// dies (fatal error, out of memory) is a finding, not an engine error.
	CrashIsViolation bool `json:"crash_is_violation,omitempty"`
	Verbose          bool `json:"verbose,omitempty"`
}

// Replay identifies one execution: the choices of the explorer and/or the
// event history.
type Replay struct {
	Choices []int           `json:"choices,omitempty"`
	History json.RawMessage `json:"history,omitempty"`
}

type Violation struct {
	Prop     string  `json:"property"`
	Scenario string  `json:"scenario"`
	Oracle   string  `json:"oracle"`
	Detail   string  `json:"detail"`
	Info     string  `json:"info,omitempty"`
	Replay   *Replay `json:"replay,omitempty"`
	Job      *Job    `json:"job,omitempty"`
	// Tags: the properties this violation is evidence against (empty = the
	// property of the job). A check reports only violations tagged with its
	// own property, so one oracle cannot poison another property's verdict.
	Tags []string `json:"tags,omitempty"`
}

func (v *Violation) relevant(prop string) bool {
	if len(v.Tags) == 0 {
		return true
	}
	for _, t := range v.Tags {
		if t == prop {
			return true
		}
	}
	return false
}

func (v *Violation) Sig() string { return v.Prop + "|" + v.Scenario + "|" + v.Oracle + "|" + v.Detail }

type Result struct {
	Job         string         `json:"job"`
	States      int            `json:"states"`
	Transitions int            `json:"transitions"`
	Executions  int            `json:"executions"`
	Steps       int            `json:"steps"`
	Outcomes    int            `json:"distinct_outcomes"`
	MaxDepth    int            `json:"max_depth,omitempty"`
	Bound       int            `json:"deviation_bound,omitempty"`
	BoundDone   *int           `json:"deviation_bound_done,omitempty"` // set by jobs whose search iterates the bound; nil = Bound if exhaustive
	Exhaustive  bool           `json:"exhaustive"`
	CapHit      string         `json:"cap_hit,omitempty"`
	Violations  []Violation    `json:"violations,omitempty"`
	Samples     []any          `json:"samples,omitempty"`
	Extra       map[string]any `json:"extra,omitempty"`
	EngineError string         `json:"engine_error,omitempty"`
	WallS       float64        `json:"wall_s"`
	Crashed     string         `json:"crashed,omitempty"` // set by the parent when the worker died
}

// JobFunc runs a job inside a worker process.
type JobFunc func(j *Job) *Result

var registry = map[string]JobFunc{}

func Register(kind string, f JobFunc) { registry[kind] = f }

// Planner lists the jobs of a property for a tier.
type Planner func(tier string) []Job

var planners = map[string]Planner{}

type PropInfo struct {
	Rule        string
	Assumptions []string
}

var propInfo = map[string]PropInfo{}

func RegisterProp(id string, p Planner, info PropInfo) {
	planners[id] = p
	propInfo[id] = info
}

// WrapPlanner post-processes the job list of an already registered property
// (registration order between files of a package is by file name, so wrappers
// are applied lazily at planning time).
var wrappers = map[string][]func(tier string, jobs []Job) []Job{}

func WrapPlanner(id string, f func(tier string, jobs []Job) []Job) {
	wrappers[id] = append(wrappers[id], f)
}

func plan(id, tier string) ([]Job, bool) {
	pl, ok := planners[id]
	if !ok {
		return nil, false
	}
	jobs := pl(tier)
	for _, w := range wrappers[id] {
		jobs = w(tier, jobs)
	}
	return jobs, true
}

func Props() []string {
	var out []string
	for k := range planners {
		out = append(out, k)
	}
	sort.Strings(out)
	return out
}

// RunWorker executes one job in this process and prints the result as the
// last line of stdout, prefixed by RESULT.
func RunWorker(jobJSON string) int {
	var j Job
	if err := json.Unmarshal([]byte(jobJSON), &j); err != nil {
		fmt.Fprintln(os.Stderr, "bad job:", err)
		return 2
	}
	f, ok := registry[j.Kind]
	if !ok {
		fmt.Fprintln(os.Stderr, "unknown job kind", j.Kind)
		return 2
	}
	t0 := time.Now()
	var res *Result
	func() {
		defer func() {
			if r := recover(); r != nil {
				buf := make([]byte, 8192)
				buf = buf[:runtime.Stack(buf, false)]
				res = &Result{Job: j.Name, EngineError: fmt.Sprintf("%v\n%s", r, buf)}
			}
		}()
		res = f(&j)
	}()
	res.Job = j.Name
	res.WallS = time.Since(t0).Seconds()
	for i := range res.Violations {
		res.Violations[i].Prop = j.Prop
		if res.Violations[i].Scenario == "" {
			res.Violations[i].Scenario = j.Name
		}
	}
	b, _ := json.Marshal(res)
	fmt.Printf("RESULT %s\n", b)
	return 0
}

// KnownFinding is one entry of known_findings.json.
type KnownFinding struct {
	ID        string `json:"id"`
	Property  string `json:"property"`
	Status    string `json:"status"` // known | fixed
	Commit    string `json:"commit,omitempty"`
	Scenario  string `json:"scenario"` // exact, or prefix ending in *
	Oracle    string `json:"oracle"`
	Detail    string `json:"detail"` // exact, or prefix ending in *
	WhatFails string `json:"what_fails"`
}

func match(pat, s string) bool {
	if strings.HasSuffix(pat, "*") {
		return strings.HasPrefix(s, strings.TrimSuffix(pat, "*"))
	}
	return pat == s
}

func (k *KnownFinding) Matches(v *Violation) bool {
	return k.Status == "known" && k.Property == v.Prop && match(k.Scenario, v.Scenario) && k.Oracle == v.Oracle && match(k.Detail, v.Detail)
}

func LoadKnown(root string) []KnownFinding {
	b, err := os.ReadFile(filepath.Join(root, "known_findings.json"))
	if err != nil {
		return nil
	}
	var out []KnownFinding
	if err := json.Unmarshal(b, &out); err != nil {
		fmt.Fprintln(os.Stderr, "known_findings.json:", err)
		os.Exit(2)
	}
	return out
}

// RunProperty plans, runs (in parallel worker processes) and aggregates the
// jobs of one property; writes evidence and replay files; returns exit code.
func RunProperty(root, prop, tier string, seed int64, exePlain, exeRace string) int {
	jobs, ok := plan(prop, tier)
	if !ok {
		fmt.Fprintln(os.Stderr, "no check for property", prop)
		return 2
	}
	for i := range jobs {
		jobs[i].Prop = prop
		jobs[i].Tier = tier
	}
	t0 := time.Now()
	results := make([]*Result, len(jobs))
	par := runtime.NumCPU()
	if par > 16 {
		par = 16
	}
	sem := make(chan struct{}, par)
	var wg sync.WaitGroup
	for i := range jobs {
		wg.Add(1)
		sem <- struct{}{}
		go func(i int) {
			defer wg.Done()
			defer func() { <-sem }()
			exe := exePlain
			if jobs[i].Race {
				exe = exeRace
			}
			results[i] = runJobProcess(exe, &jobs[i])
		}(i)
	}
	wg.Wait()

	known := LoadKnown(root)
	ev := map[string]any{}
	cov := map[string]any{}
	var all []Violation
	states, trans, execs, steps, outcomes := 0, 0, 0, 0, 0
	exhaustive := true
	var caps []string
	var samples []any
	var engineErrs []string
	perJob := []map[string]any{}
	maxDepth, bound, boundDone := 0, 0, -1
	doneOf := func(r *Result) int {
		switch {
		case r.BoundDone != nil:
			return *r.BoundDone
		case r.Exhaustive:
			return r.Bound
		}
		return -1 // capped and not iterated: nothing is known to be complete
	}
	for i, r := range results {
		states += r.States
		trans += r.Transitions
		execs += r.Executions
		steps += r.Steps
		outcomes += r.Outcomes
		if r.MaxDepth > maxDepth {
			maxDepth = r.MaxDepth
		}
		if r.Bound > 0 {
			if r.Bound > bound {
				bound = r.Bound
			}
			if d := doneOf(r); boundDone == -1 || d < boundDone {
				boundDone = d
			}
		}
		if !r.Exhaustive {
			exhaustive = false
			if r.CapHit != "" {
				caps = append(caps, r.Job+": "+r.CapHit)
			}
		}
		if r.EngineError != "" {
			engineErrs = append(engineErrs, r.Job+": "+r.EngineError)
		}
		if len(samples) < 12 && len(r.Samples) > 0 {
			samples = append(samples, map[string]any{"job": r.Job, "case": r.Samples[0]})
		}
		for k := range r.Violations {
			v := r.Violations[k]
			if !v.relevant(prop) {
				continue
			}
			jj := jobs[i]
			v.Job = &jj
			all = append(all, v)
		}
		pj := map[string]any{"job": r.Job, "states": r.States, "transitions": r.Transitions, "executions": r.Executions, "distinct_outcomes": r.Outcomes, "exhaustive": r.Exhaustive, "wall_s": round2(r.WallS)}
		if r.Bound > 0 {
			pj["deviation_bound"] = r.Bound
			pj["deviation_bound_completed"] = doneOf(r)
		}
		if r.MaxDepth > 0 {
			pj["max_depth"] = r.MaxDepth
		}
		if r.CapHit != "" {
			pj["cap_hit"] = r.CapHit
		}
		for k, v := range r.Extra {
			pj[k] = v
		}
		perJob = append(perJob, pj)
	}
	if len(samples) == 0 {
		samples = append(samples, "no sample recorded")
	}
	if states == 0 {
		states = execs
	}
	if trans == 0 {
		trans = steps
	}
	cov["states"] = states
	cov["transitions"] = trans
	cov["traces_validated_against_impl"] = execs
	cov["samples"] = samples
	cov["executions"] = execs
	cov["scheduler_steps"] = steps
	cov["distinct_outcomes"] = outcomes
	cov["exhaustive"] = exhaustive && len(engineErrs) == 0
	cov["jobs"] = perJob
	cov["evaluations"] = execs
	cov["distinct_nontrivial"] = outcomes
	if info, ok := propInfo[prop]; ok {
		cov["rule"] = info.Rule
		ev["assumptions"] = info.Assumptions
	}
	if len(caps) > 0 {
		cov["caps_hit"] = caps
	}
	if maxDepth > 0 {
		cov["max_depth"] = maxDepth
	}
	if bound > 0 {
		cov["deviation_bound"] = bound               // largest bound any job was asked to explore
		cov["deviation_bound_completed"] = boundDone // smallest bound completed by every bounded job (per job: table)
	}
	if len(engineErrs) > 0 {
		cov["engine_errors"] = engineErrs
	}

	// classify violations
	seen := map[string]bool{}
	var unknown []Violation
	knownHits := map[string]int{}
	var knownLines []string
	for i := range all {
		v := &all[i]
		sig := v.Sig()
		if seen[sig] {
			continue
		}
		seen[sig] = true
		matched := false
		for k := range known {
			if known[k].Matches(v) {
				matched = true
				if knownHits[known[k].ID] == 0 {
					knownLines = append(knownLines, fmt.Sprintf("KNOWN-FINDING: property=%s %s [%s]", prop, known[k].WhatFails, known[k].ID))
				}
				knownHits[known[k].ID]++
				break
			}
		}
		if !matched {
			unknown = append(unknown, *v)
		}
	}
	cov["known_finding_hits"] = knownHits
	ev["property_id"] = prop
	ev["tier"] = tier
	ev["seed"] = seed
	ev["level"] = "model_checking"
	ev["coverage"] = cov
	ev["wall_s"] = round2(time.Since(t0).Seconds())
	ev["violations"] = len(unknown)
	os.MkdirAll(filepath.Join(root, "evidence"), 0o755)
	b, _ := json.MarshalIndent(ev, "", " ")
	os.WriteFile(filepath.Join(root, "evidence", prop+".json"), b, 0o644)

	for _, l := range knownLines {
		fmt.Println(l)
	}
	fmt.Printf("%s %s: %d jobs, %d executions, %d states, %d transitions, %d distinct outcomes, exhaustive=%v, %.1fs\n", prop, tier, len(jobs), execs, states, trans, outcomes, cov["exhaustive"], time.Since(t0).Seconds())
	if len(engineErrs) > 0 {
		for _, e := range engineErrs {
			fmt.Fprintln(os.Stderr, "ENGINE ERROR:", e)
		}
		if len(unknown) == 0 {
			return 2
		}
	}
	if len(unknown) > 0 {
		os.MkdirAll(filepath.Join(root, "replays"), 0o755)
		for i := range unknown {
			v := &unknown[i]
			h := sha1.Sum([]byte(v.Sig()))
			path := filepath.Join(root, "replays", fmt.Sprintf("%s-%x.json", prop, h[:5]))
			rb, _ := json.MarshalIndent(v, "", " ")
			os.WriteFile(path, rb, 0o644)
			fmt.Printf("VIOLATION property=%s replay=%s\n", prop, path)
			fmt.Printf("  scenario=%s oracle=%s detail=%s\n  %s\n", v.Scenario, v.Oracle, v.Detail, v.Info)
		}
		return 1
	}
	return 0
}

var raceSeq atomic.Int64

func round2(f float64) float64 { return float64(int(f*100)) / 100 }

func runJobProcess(exe string, j *Job) *Result {
	jb, _ := json.Marshal(j)
	cmd := exec.Command(exe, "-job", string(jb))
	cmd.Env = append(os.Environ(), "GOMAXPROCS=2", "GOTRACEBACK=single")
	if j.Race {
		dir := filepath.Join(filepath.Dir(exe), "race")
		os.MkdirAll(dir, 0o755)
		cmd.Env = append(cmd.Env, fmt.Sprintf("GORACE=log_path=%s/r%d-%d halt_on_error=0", dir, os.Getpid(), raceSeq.Add(1)))
	}
	var stderr bytes.Buffer
	cmd.Stderr = &stderr
	out, err := cmd.StdoutPipe()
	if err != nil {
		return &Result{Job: j.Name, EngineError: err.Error()}
	}
	if err := cmd.Start(); err != nil {
		return &Result{Job: j.Name, EngineError: err.Error()}
	}
	var res *Result
	var lastLines []string
	sc := bufio.NewScanner(out)
	sc.Buffer(make([]byte, 1<<20), 1<<28)
	for sc.Scan() {
		line := sc.Text()
		if strings.HasPrefix(line, "RESULT ") {
			var r Result
			if json.Unmarshal([]byte(line[7:]), &r) == nil {
				res = &r
			}
		} else {
			lastLines = append(lastLines, line)
			if len(lastLines) > 30 {
				lastLines = lastLines[1:]
			}
		}
	}
	werr := cmd.Wait()
	if res == nil && j.CrashIsViolation {
		tail := stderr.String()
		class := "process-died"
		for _, l := range strings.Split(tail, "\n") {
			if strings.HasPrefix(l, "fatal error:") || strings.HasPrefix(l, "panic:") {
				class = strings.TrimSpace(l)
				break
			}
		}
		if len(tail) > 4000 {
			tail = tail[:4000]
		}
		return &Result{Job: j.Name, Exhaustive: false, CapHit: "worker process died", States: 1, Transitions: 1,
			Violations: []Violation{{Prop: j.Prop, Scenario: j.Name, Oracle: "process-crash", Detail: class, Info: "the process running the server died: " + tail}}}
	}
	if res == nil {
		tail := stderr.String()
		if len(tail) > 6000 {
			tail = tail[:3000] + "\n...\n" + tail[len(tail)-3000:]
		}
		return &Result{Job: j.Name, Crashed: fmt.Sprintf("worker died (%v)\nstdout tail: %s\nstderr: %s", werr, strings.Join(lastLines, "\n"), tail), EngineError: fmt.Sprintf("worker died without a result (%v): %s", werr, firstLine(tail))}
	}
	return res
}

func firstLine(s string) string {
	s = strings.TrimSpace(s)
	if i := strings.IndexByte(s, '\n'); i >= 0 {
		return s[:i]
	}
	return s
}
