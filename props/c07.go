package props

import (
	"fmt"
	"sort"
	"strings"

	"verif/check"
	"verif/world"
)

// ---- C07: a session is joinable exactly while it has members ----------------

const frameWorkerSuffix = "StartDispatchFrames"

// registryInvariants evaluates the C07 state invariants at a quiescent point.
// members: clients that were told "you joined session X" and have not left.
func registryInvariants(x *Ctx, members []string) {
	w := x.W
	live := map[string]string{} // session id -> uuid, from the members' point of view
	for _, n := range members {
		ji, ok := x.J[n]
		if !ok {
			continue
		}
		if u, dup := live[ji.SessionID]; dup && u != ji.UUID {
			x.fail("duplicate-session-id", "two-live-sessions-share-id", "clients were told session id %s for two different sessions (uuids %s, %s)", ji.SessionID, u, ji.UUID)
		}
		live[ji.SessionID] = ji.UUID
		sess, found := w.Store.GetByGlobalID(ji.SessionID)
		if !found {
			x.fail("orphaned-join", "id-does-not-resolve", "%s was answered JOIN_RESPONSE(session %s, participant %d) but the id does not resolve", n, ji.SessionID, ji.ParticipantID)
			continue
		}
		if sess.SessionUUID != ji.UUID {
			x.fail("orphaned-join", "id-resolves-to-other-session", "%s joined %s/%s but the id now resolves to uuid %s", n, ji.SessionID, ji.UUID, sess.SessionUUID)
			continue
		}
		in := false
		for _, p := range sess.GetParticipants() {
			if p.ID == ji.ParticipantID {
				in = true
			}
		}
		if !in {
			x.fail("orphaned-join", "member-not-in-session", "%s (participant %d) is not a member of the session registered under %s", n, ji.ParticipantID, ji.SessionID)
		}
	}
	// discoverable sessions are exactly the non-empty ones
	cands := map[string]bool{}
	for i := 1; i <= 8; i++ {
		cands[fmt.Sprintf("srvx%x", i)] = true
	}
	for _, ji := range x.J {
		cands[ji.SessionID] = true
	}
	var ids []string
	for id := range cands {
		ids = append(ids, id)
	}
	sort.Strings(ids)
	discoverable := 0
	for _, id := range ids {
		if sess, ok := w.Store.GetByGlobalID(id); ok {
			discoverable++
			if sess.ParticipantCount() == 0 {
				x.fail("empty-session-discoverable", "empty-session-resolves", "session %s has no participant but still resolves", id)
			}
		}
	}
	// sessions the live handlers think they are in must be discoverable
	for _, c := range w.Clients {
		if c.RH == nil || c.Closed {
			continue
		}
		if cs := c.RH.CurrentSession(); cs != nil && cs.ParticipantCount() > 0 {
			gid := w.Store.GlobalSessionID(cs.ID)
			if s2, ok := w.Store.GetByGlobalID(gid); !ok || s2 != cs {
				x.fail("orphaned-join", "nonempty-session-not-discoverable", "connection %s is in a non-empty session (id %s) that is not registered", c.Name, gid)
			}
		}
	}
	if g := gauge("session_count") - x.Base.Sessions; int(g) != discoverable {
		x.fail("gauge", "session-gauge-differs", "session_count gauge is %v but %d sessions are discoverable", g, discoverable)
	}
	if alive, total := aliveWorkers(w.S, frameWorkerSuffix); total > 0 && alive != discoverable {
		x.fail("frame-worker", "workers-differ-from-sessions", "%d frame workers alive for %d discoverable sessions", alive, discoverable)
	}
}

// probeMembers: a fresh connection joins each member's session under the id
// the member was told, and must be handed a state containing the member.
func probeMembers(x *Ctx, members []string) {
	for i, n := range members {
		ji, ok := x.J[n]
		if !ok {
			continue
		}
		pn := fmt.Sprintf("probe%d", i)
		x.conn(pn)
		pj := join(x.W, x.C[pn], ji.SessionID)
		switch {
		case !pj.OK:
			x.fail("orphaned-join", "probe-cannot-join", "%s was told it is in %s, but a probe joining that id is refused with %v", n, ji.SessionID, pj.Code)
		case pj.UUID != ji.UUID:
			x.fail("orphaned-join", "probe-finds-other-session", "probe joining %s finds uuid %s, member %s was told %s", ji.SessionID, pj.UUID, n, ji.UUID)
		case !hasU32(participantIDs(pj.State), ji.ParticipantID):
			x.fail("orphaned-join", "probe-does-not-see-member", "probe joining %s is not shown participant %d (%s)", ji.SessionID, ji.ParticipantID, n)
		}
		x.C[pn].Close()
		x.W.Run()
	}
}

func finalInvariants(x *Ctx, left []world.Leftover) {
	if len(left) > 0 {
		x.fail("teardown", "threads-left:"+leftoverClass(left), "after every client closed these threads never finished: %s", leftoverString(left))
	}
	if g := gauge("session_count") - x.Base.Sessions; g != 0 {
		x.fail("gauge", "session-gauge-final", "all clients gone but session_count gauge is off by %v", g)
	} else if x.Base.SessSeries != nil {
		// per series (one per app key): the sum can hide a session counted for the wrong app
		if d := seriesDrift("session_count", x.Base.SessSeries); len(d) > 0 {
			x.fail("gauge", "session-gauge-series-final", "all clients gone but series of session_count are off: %s", strings.Join(d, "; "))
		}
		if d := seriesDrift("ws_connected_clients", x.Base.ClientSeries); len(d) > 0 {
			x.fail("gauge", "client-gauge-series-final", "all clients gone but series of ws_connected_clients are off: %s", strings.Join(d, "; "))
		}
	}
	for i := 1; i <= 8; i++ {
		if _, ok := x.W.Store.GetByGlobalID(fmt.Sprintf("srvx%x", i)); ok {
			x.fail("empty-session-discoverable", "session-survives-all-clients", "session srvx%x still resolves after every client disconnected", i)
		}
	}
}

func init() {
	// join of an existing session against the last departure (close)
	registerBlock("c07-join-vs-lastleave-close", func() *Block {
		return &Block{
			Setup: func(x *Ctx) { x.conn("a", "b"); x.join("a", "") },
			Fire: func(x *Ctx) {
				m, rid := joinReq(x.W, x.C["b"], x.J["a"].SessionID)
				x.Vars["rid"] = rid
				x.C["b"].SendMsg(m)
				x.C["a"].Close()
			},
			Check: func(x *Ctx) {
				ji := parseJoin(x.C["b"].Take(), x.Vars["rid"].(uint32))
				if ji.Answers != 1 {
					x.fail("answer-count", "join-answers", "join got %d answers", ji.Answers)
				}
				var members []string
				if ji.OK {
					x.J["b"] = ji
					members = append(members, "b")
				}
				delete(x.J, "a")
				registryInvariants(x, members)
				probeMembers(x, members)
			},
			Final: finalInvariants,
		}
	})
	// ... against the last departure by switching to a new session
	registerBlock("c07-join-vs-lastleave-switch", func() *Block {
		return &Block{
			Setup: func(x *Ctx) { x.conn("a", "b"); x.join("a", "") },
			Fire: func(x *Ctx) {
				m, rid := joinReq(x.W, x.C["b"], x.J["a"].SessionID)
				x.Vars["rid"] = rid
				x.C["b"].SendMsg(m)
				m2, rid2 := joinReq(x.W, x.C["a"], "")
				x.Vars["rid2"] = rid2
				x.C["a"].SendMsg(m2)
			},
			Check: func(x *Ctx) {
				ji := parseJoin(x.C["b"].Take(), x.Vars["rid"].(uint32))
				ja := parseJoin(x.C["a"].Take(), x.Vars["rid2"].(uint32))
				delete(x.J, "a")
				var members []string
				if ji.OK {
					x.J["b"] = ji
					members = append(members, "b")
				}
				if ja.OK {
					x.J["a"] = ja
					members = append(members, "a")
				} else {
					x.fail("answer", "create-refused", "creating a session was refused: %v", ja.Code)
				}
				registryInvariants(x, members)
				probeMembers(x, members)
			},
			Final: finalInvariants,
		}
	})
	// two last departures
	registerBlock("c07-lastleave-vs-lastleave", func() *Block {
		return &Block{
			Setup: func(x *Ctx) { x.conn("a", "b"); x.join("a", ""); x.join("b", x.J["a"].SessionID); x.C["a"].Take() },
			Fire:  func(x *Ctx) { x.C["a"].Close(); x.C["b"].Close() },
			Check: func(x *Ctx) {
				delete(x.J, "a")
				delete(x.J, "b")
				registryInvariants(x, nil)
			},
			Final: finalInvariants,
		}
	})
	// two creations
	registerBlock("c07-create-vs-create", func() *Block {
		return &Block{
			Setup: func(x *Ctx) { x.conn("a", "b") },
			Fire: func(x *Ctx) {
				for _, n := range []string{"a", "b"} {
					m, rid := joinReq(x.W, x.C[n], "")
					x.Vars["rid"+n] = rid
					x.C[n].SendMsg(m)
				}
			},
			Check: func(x *Ctx) {
				var members []string
				for _, n := range []string{"a", "b"} {
					ji := parseJoin(x.C[n].Take(), x.Vars["rid"+n].(uint32))
					if !ji.OK {
						x.fail("answer", "create-refused", "creating a session was refused for %s: %v", n, ji.Code)
						continue
					}
					x.J[n] = ji
					members = append(members, n)
				}
				if len(members) == 2 && x.J["a"].SessionID == x.J["b"].SessionID {
					x.fail("duplicate-session-id", "two-creations-same-id", "two concurrent creations were both given session id %s", x.J["a"].SessionID)
				}
				registryInvariants(x, members)
				probeMembers(x, members)
			},
			Final: finalInvariants,
		}
	})
	// two last departures and a creation (a stale removal after the id was reissued)
	registerBlock("c07-lastleave-lastleave-create", func() *Block {
		return &Block{
			Setup: func(x *Ctx) {
				x.conn("a", "b", "c")
				x.join("a", "")
				x.join("b", x.J["a"].SessionID)
				x.C["a"].Take()
			},
			Fire: func(x *Ctx) {
				x.C["a"].Close()
				x.C["b"].Close()
				m, rid := joinReq(x.W, x.C["c"], "")
				x.Vars["rid"] = rid
				x.C["c"].SendMsg(m)
			},
			Check: func(x *Ctx) {
				delete(x.J, "a")
				delete(x.J, "b")
				ji := parseJoin(x.C["c"].Take(), x.Vars["rid"].(uint32))
				var members []string
				if ji.OK {
					x.J["c"] = ji
					members = append(members, "c")
				} else {
					x.fail("answer", "create-refused", "creating a session was refused: %v", ji.Code)
				}
				registryInvariants(x, members)
				probeMembers(x, members)
			},
			Final: finalInvariants,
		}
	})
	// the last departure of one session against the creation of another (id recycling)
	registerBlock("c07-lastleave-vs-create", func() *Block {
		return &Block{
			Setup: func(x *Ctx) { x.conn("a", "c"); x.join("a", "") },
			Fire: func(x *Ctx) {
				x.C["a"].Close()
				m, rid := joinReq(x.W, x.C["c"], "")
				x.Vars["rid"] = rid
				x.C["c"].SendMsg(m)
			},
			Check: func(x *Ctx) {
				delete(x.J, "a")
				ji := parseJoin(x.C["c"].Take(), x.Vars["rid"].(uint32))
				var members []string
				if ji.OK {
					x.J["c"] = ji
					members = append(members, "c")
				} else {
					x.fail("answer", "create-refused", "creating a session was refused: %v", ji.Code)
				}
				registryInvariants(x, members)
				probeMembers(x, members)
			},
			Final: finalInvariants,
		}
	})
	// three at once: a join by id, the last departure of that session, and the
	// creation of another session (which may be given the recycled id): a joiner
	// refused at the last step, or a lookup that finds the closed session, must not
	// release the id or the registry entry a second time
	registerBlock("c07-join-lastleave-create", func() *Block {
		return &Block{
			Setup: func(x *Ctx) { x.conn("a", "b", "c"); x.join("a", "") },
			Fire: func(x *Ctx) {
				m, rid := joinReq(x.W, x.C["b"], x.J["a"].SessionID)
				x.Vars["ridb"] = rid
				x.C["b"].SendMsg(m)
				x.C["a"].Close()
				m2, rid2 := joinReq(x.W, x.C["c"], "")
				x.Vars["ridc"] = rid2
				x.C["c"].SendMsg(m2)
			},
			Check: func(x *Ctx) {
				delete(x.J, "a")
				var members []string
				jb := parseJoin(x.C["b"].Take(), x.Vars["ridb"].(uint32))
				if jb.Answers != 1 {
					x.fail("answer-count", "join-answers", "join got %d answers", jb.Answers)
				}
				if jb.OK {
					x.J["b"] = jb
					members = append(members, "b")
				}
				jc := parseJoin(x.C["c"].Take(), x.Vars["ridc"].(uint32))
				if jc.OK {
					x.J["c"] = jc
					members = append(members, "c")
				} else {
					x.fail("answer", "create-refused", "creating a session was refused: %v", jc.Code)
				}
				registryInvariants(x, members)
				probeMembers(x, members)
				// and the id source is intact: two further sessions get ids of their own
				x.conn("e", "f")
				je, jf := x.join("e", ""), x.join("f", "")
				if je.OK && jf.OK {
					members = append(members, "e", "f")
					registryInvariants(x, members)
				}
			},
			Final: finalInvariants,
		}
	})
	// join by id against a departure that is NOT the last one (control: must always succeed)
	registerBlock("c07-join-vs-leave-nonlast", func() *Block {
		return &Block{
			Setup: func(x *Ctx) {
				x.conn("a", "b", "c")
				x.join("a", "")
				x.join("b", x.J["a"].SessionID)
				x.C["a"].Take()
			},
			Fire: func(x *Ctx) {
				m, rid := joinReq(x.W, x.C["c"], x.J["a"].SessionID)
				x.Vars["rid"] = rid
				x.C["c"].SendMsg(m)
				x.C["a"].Close()
			},
			Check: func(x *Ctx) {
				delete(x.J, "a")
				ji := parseJoin(x.C["c"].Take(), x.Vars["rid"].(uint32))
				members := []string{"b"}
				if ji.OK {
					x.J["c"] = ji
					members = append(members, "c")
				} else {
					x.fail("answer", "join-of-live-session-refused", "session %s has member b throughout, yet the join was refused with %v", x.J["b"].SessionID, ji.Code)
				}
				registryInvariants(x, members)
				probeMembers(x, members)
			},
			Final: finalInvariants,
		}
	})

	check.RegisterProp("C07", func(tier string) []check.Job {
		b2, b3 := 2, 2
		budget := 240
		if tier == "thorough" {
			b2, b3 = 3, 2
			budget = 900
		}
		jobs := []check.Job{
			s2job("c07-join-vs-lastleave-close", b2, budget),
			s2job("c07-join-vs-lastleave-switch", b2, budget),
			s2job("c07-lastleave-vs-lastleave", b2, budget),
			s2job("c07-create-vs-create", b2, budget),
			s2job("c07-join-vs-leave-nonlast", b2, budget),
			s2job("c07-lastleave-vs-create", b2, budget),
		}
		ld := 6
		if tier == "thorough" {
			ld = 8
		}
		jobs = append(jobs, s1job("lifecycle", ld, []string{"C07"}, 4, budget))
		jobs = append(jobs, s2sharded("c07-join-lastleave-create", b3, budget, 14)...)
		return append(jobs, s2sharded("c07-lastleave-lastleave-create", b3, budget, 10)...)
	}, check.PropInfo{
		Rule: "S2: per scenario a setup history, then 2-3 requests fired at once; every interleaving of the connections' main-loop threads and session frame workers at lock/channel granularity with at most `bound` preemptions is executed on the real server (receiver/sender threads run eagerly); a state is one complete execution, a transition one choice point; distinct = distinct per-client message-type sequences. S1: BFS over join/switch/leave histories.",
		Assumptions: []string{
			"scheduling points at sync.Mutex/RWMutex/Once/WaitGroup, channel and select operations; code between them is atomic (unsynchronised accesses are the business of C09's race oracle)",
			"receiver and sender threads of a connection run eagerly (requests have arrived; clients keep reading)",
			"in-memory pipe instead of TCP",
		},
	})
}
