package props

import (
	"bytes"
	"encoding/json"
	"fmt"
	"io"
	"net/http"
	"sort"
	"strings"

	"github.com/aukilabs/hagall-common/messages/hagallpb"
	"github.com/aukilabs/hagall/receipt"
	"github.com/ethereum/go-ethereum/crypto"

	"verif/check"
	"verif/explore"
	"verif/vrt"
	"verif/world"
)

// ---- C19: receipts --------------------------------------------------------------------

type triple struct {
	Name    string
	Receipt string
	Hash    []byte
	Sig     []byte
}

// wellFormed is the reference: go-ethereum's primitives called directly.
func (t triple) wellFormed() bool {
	if !bytes.Equal(crypto.Keccak256([]byte(t.Receipt)), t.Hash) {
		return false
	}
	_, err := crypto.Ecrecover(t.Hash, t.Sig)
	return err == nil
}

func (t triple) hasEmpty() bool { return t.Receipt == "" || len(t.Hash) == 0 || len(t.Sig) == 0 }

func tripleAlphabet() []triple {
	key, _ := crypto.HexToECDSA("4c0883a69102937d6231471b5dbb6204fe5129617082792ae468d01a3f362318")
	text := `{"id":"r1","amount":42}`
	h := crypto.Keccak256([]byte(text))
	sig, _ := crypto.Sign(h, key)
	text2 := `{"id":"r2","amount":7}`
	h2 := crypto.Keccak256([]byte(text2))
	sig2, _ := crypto.Sign(h2, key)
	cp := func(b []byte) []byte { return append([]byte{}, b...) }
	mod := func(b []byte, f func([]byte) []byte) []byte { return f(cp(b)) }
	ts := []triple{
		{"valid", text, h, sig},
		{"valid-2", text2, h2, sig2},
		{"receipt-empty", "", h, sig},
		{"hash-empty", text, nil, sig},
		{"signature-empty", text, h, nil},
		{"hash-of-another-text", text, h2, sig2},
		{"text-changed-after-signing", text + " ", h, sig},
		{"hash-truncated-31", text, h[:31], sig},
		{"hash-33-appended", text, append(cp(h), 0), sig},
		{"hash-33-prepended", text, append([]byte{0x7f}, h...), sig},
		{"hash-44-prepended", text, append(bytes.Repeat([]byte{1}, 12), h...), sig},
		{"hash-one-bit-flipped", text, mod(h, func(b []byte) []byte { b[5] ^= 1; return b }), sig},
		{"signature-64", text, h, sig[:64]},
		{"signature-66", text, h, append(cp(sig), 0)},
		{"signature-bad-recovery-id", text, h, mod(sig, func(b []byte) []byte { b[64] = 5; return b })},
		{"signature-zero-r-s", text, h, append(make([]byte, 64), sig[64])},
		{"signature-over-another-hash", text, h, sig2},
		{"signature-garbage", text, h, bytes.Repeat([]byte{0xff}, 65)},
	}
	// a valid hash whose leading zero byte would be lost by a conversion through a number
	for i := 0; i < 2000; i++ {
		tx := fmt.Sprintf(`{"id":"z%d"}`, i)
		hz := crypto.Keccak256([]byte(tx))
		if hz[0] == 0 {
			sz, _ := crypto.Sign(hz, key)
			ts = append(ts, triple{"valid-hash-with-leading-zero", tx, hz, sz}, triple{"leading-zero-stripped", tx, hz[1:], sz})
			break
		}
	}
	return ts
}

// ncs is the harness-owned credit service: an http.RoundTripper.
type ncs struct {
	mode string // "200", "500", "error", "never"
	reqs []ncsReq
	hold ncsHold
}

type ncsReq struct {
	URL  string
	Body string
}

type ncsHold struct{ released bool }

//go:norace
func (h *ncsHold) Ready() bool      { return h.released }
func (h *ncsHold) WaitName() string { return "credit-service-never-answers" }

//go:norace
func (n *ncs) record(r ncsReq) { n.reqs = append(n.reqs, r) }

func (n *ncs) RoundTrip(req *http.Request) (*http.Response, error) {
	b, _ := io.ReadAll(req.Body)
	n.record(ncsReq{req.URL.String(), string(b)})
	if k, ok := strings.CutPrefix(n.mode, "down-"); ok {
		// the credit service is down for the first k posts, then back
		var cnt int
		fmt.Sscanf(k, "%d", &cnt)
		if len(n.reqs) <= cnt {
			return nil, fmt.Errorf("dial tcp: connection refused")
		}
	}
	switch n.mode {
	case "error":
		return nil, fmt.Errorf("dial tcp: connection refused")
	case "never":
		if vrt.WaitOn(&n.hold) {
			return nil, fmt.Errorf("gave up")
		}
	case "500":
		return &http.Response{StatusCode: 500, Body: io.NopCloser(strings.NewReader("boom")), Header: http.Header{}, Request: req}, nil
	}
	return &http.Response{StatusCode: 200, Body: io.NopCloser(strings.NewReader("")), Header: http.Header{}, Request: req}, nil
}

type sub struct {
	Who string
	T   triple
	rid uint32
}

type c19Params struct {
	Cap     int      `json:"cap"`
	Mode    string   `json:"mode"`
	Subs    []string `json:"subs"` // "who:tripleName"
	Bound   int      `json:"bound"`
	Seq     bool     `json:"seq"` // sequential: one submission at a time
	Pairs   bool     `json:"pairs,omitempty"`
	Fill    bool     `json:"fill,omitempty"`
	Triples bool     `json:"triples,omitempty"` // sequential: every ordered triple too
	Shard   int      `json:"shard,omitempty"`
	Shards  int      `json:"shards,omitempty"`
}

func runReceipts(cap int, mode string, subs []sub, seq bool, ch vrt.Chooser) (out explore.Outcome) {
	w := world.New(world.Config{ReceiptCap: cap}, ch)
	s := w.S
	s.EagerLabels = []string{eagerPrefix}
	s.NoPreempt = true
	svc := &ncs{mode: mode}
	old := http.DefaultTransport
	http.DefaultTransport = svc
	defer func() { http.DefaultTransport = old }()
	rh := receipt.ReceiptHandler{NCSEndpoint: "http://ncs.test", ReceiptChan: w.ReceiptChan}
	s.Spawn("receipt-start", func() { rh.HandleReceipts(w.Ctx) })
	x := &Ctx{W: w, C: map[string]*world.Client{}, J: map[string]JoinInfo{}, Vars: map[string]any{}}
	names := map[string]bool{}
	for _, sb := range subs {
		if !names[sb.Who] {
			names[sb.Who] = true
			x.conn(sb.Who)
		}
	}
	send := func(sb *sub) {
		c := x.C[sb.Who]
		sb.rid = c.NextReqID()
		c.SendMsg(&hagallpb.ReceiptRequest{Type: hagallpb.MsgType_MSG_TYPE_RECEIPT_REQUEST, Timestamp: w.NextTS(), RequestId: sb.rid, Receipt: sb.T.Receipt, Hash: sb.T.Hash, Signature: sb.T.Sig})
	}
	if seq {
		for i := range subs {
			if x.C[subs[i].Who].Pipe.ServerClosed() {
				// a previous erroneous receipt ended this connection: use a fresh one
				n := fmt.Sprintf("%s%d", subs[i].Who, i)
				x.conn(n)
				subs[i].Who = n
			}
			send(&subs[i])
			w.Run()
		}
	} else {
		s.NoPreempt = false
		s.ForgetLastRun()
		for i := range subs {
			send(&subs[i])
		}
		w.Run()
		s.NoPreempt = true
	}
	// ---- oracles ----
	fail := func(oracle, detail, f string, a ...any) {
		x.V = append(x.V, explore.Violation{Oracle: oracle, Detail: detail, Info: fmt.Sprintf(f, a...)})
	}
	if st := stuck(s); len(st) > 0 && mode != "never" {
		fail("deadlock", stuckClass(s), "threads blocked forever: %v", st)
	}
	for _, wt := range s.Waits {
		if strings.HasPrefix(wt, "conn:") && strings.Contains(wt, "ReceiptPayload") {
			fail("blocks", "connection-parked-on-receipt-queue", "a connection's main loop had to wait on the receipt queue: %s", wt)
		}
	}
	type want struct {
		body string
		n    int
	}
	accepted := map[string]int{} // canonical body -> number of accepted well-formed submissions
	var key []string
	for _, sb := range subs {
		rs := respFor(x.C[sb.Who].All(), sb.rid)
		kinds := ""
		for _, r := range rs {
			switch m := r.Msg.(type) {
			case *hagallpb.ReceiptResponse:
				kinds += "ok,"
			case *hagallpb.ErrorResponse:
				kinds += fmt.Sprintf("err%d,", m.Code)
			}
		}
		key = append(key, sb.T.Name+"="+kinds)
		if len(rs) != 1 {
			fail("answer", "receipt:answers", "submission %s by %s got %d answers (%s)", sb.T.Name, sb.Who, len(rs), kinds)
			continue
		}
		switch {
		case sb.T.hasEmpty():
			if kinds != "err400," {
				fail("answer", "receipt:empty-field-not-refused", "submission %s (an empty field) answered %s", sb.T.Name, kinds)
			}
		case kinds == "ok,":
			if sb.T.wellFormed() {
				b, _ := json.Marshal(map[string]any{"receipt": sb.T.Receipt, "hash": sb.T.Hash, "signature": sb.T.Sig})
				accepted[string(b)]++
			}
		case kinds == "err503,":
			// queue full: acceptable whenever the queue could be full
			if seq && cap >= len(subs) && mode != "never" {
				fail("answer", "receipt:too-busy-with-free-queue", "submission %s answered TOO_BUSY although the queue (capacity %d) cannot be full", sb.T.Name, cap)
			}
		default:
			fail("answer", "receipt:unexpected-answer", "submission %s answered %s", sb.T.Name, kinds)
		}
	}
	forwarded := map[string]int{}
	for _, r := range svc.reqs {
		var m map[string]any
		json.Unmarshal([]byte(r.Body), &m)
		b, _ := json.Marshal(m)
		forwarded[string(b)]++
		if !strings.HasSuffix(r.URL, "/receipt") {
			fail("forward", "wrong-endpoint", "forwarded to %s", r.URL)
		}
	}
	for b, n := range forwarded {
		if accepted[b] == 0 {
			fail("forward", "forwarded-not-wellformed-or-not-accepted", "the credit service received %s, which is not an accepted well-formed submission (unchanged)", b)
		} else if n > accepted[b] {
			fail("forward", "forwarded-more-than-once", "the credit service received %s %d times for %d accepted submissions", b, n, accepted[b])
		}
	}
	for b, n := range accepted {
		if forwarded[b] < n {
			fail("forward", "accepted-not-forwarded", "accepted well-formed receipt %s was forwarded %d times, accepted %d times", b, forwarded[b], n)
		}
	}
	// teardown: release a credit service that never answers
	svc.hold.released = true
	left := w.Finish()
	var real []world.Leftover
	for _, l := range left {
		real = append(real, l)
	}
	if len(real) > 0 {
		fail("teardown", "threads-left:"+leftoverClass(real), "threads never finished: %s", leftoverString(real))
	}
	sort.Strings(key)
	out.Points, out.Steps, out.HitCap = s.Points, s.Steps, s.HitCap
	out.Violations = x.V
	out.Key = strings.Join(key, ";") + fmt.Sprint(len(svc.reqs))
	return out
}

func init() {
	check.Register("c19", func(j *check.Job) *check.Result {
		var p c19Params
		json.Unmarshal(j.Params, &p)
		res := &check.Result{Exhaustive: true, Extra: map[string]any{}, Bound: p.Bound}
		alpha := tripleAlphabet()
		byName := map[string]triple{}
		for _, t := range alpha {
			byName[t.Name] = t
		}
		seen := map[string]bool{}
		outcomes := map[string]bool{}
		add := func(st *explore.Stats, desc string) {
			res.Executions += st.Executions
			res.States += st.Executions
			res.Transitions += st.Points + st.Executions
			res.Steps += st.Steps
			if !st.Exhaustive {
				res.Exhaustive, res.CapHit = false, st.CapHit
			}
			for k := range st.Outcomes {
				outcomes[desc+k] = true
			}
			for _, f := range st.Found {
				if !seen[f.Oracle+f.Detail] {
					seen[f.Oracle+f.Detail] = true
					res.Violations = append(res.Violations, check.Violation{Scenario: j.Name, Oracle: f.Oracle, Detail: f.Detail, Info: desc + ": " + f.Info, Tags: nil})
				}
			}
		}
		if p.Pairs {
			// sequential: every single triple and every ordered pair, for each service behaviour
			n := 0
			thirds := []int{-1}
			if p.Triples {
				thirds = thirds[:0]
				for k := range alpha {
					thirds = append(thirds, k)
				}
			}
			for i, t1 := range alpha {
				for k := -1; k < len(alpha); k++ {
					for _, k3 := range thirds {
						if k3 >= 0 && k < 0 {
							continue
						}
						n++
						if p.Shards > 1 && n%p.Shards != p.Shard {
							continue
						}
						subs := []sub{{Who: "a", T: t1}}
						desc := t1.Name
						if k >= 0 {
							subs = append(subs, sub{Who: "b", T: alpha[k]})
							desc += "," + alpha[k].Name
						}
						if k3 >= 0 {
							subs = append(subs, sub{Who: "a", T: alpha[k3]})
							desc += "," + alpha[k3].Name
						}
						if p.Fill {
							// two accepted receipts first: with capacity 1 and a credit service that
							// never answers, one is being forwarded, one sits in the queue - the
							// submissions under test find the queue full
							subs = append([]sub{{Who: "c", T: alpha[0]}, {Who: "c", T: alpha[1]}}, subs...)
							desc = "valid,valid-2," + desc
						}
						_ = i
						st := explore.Explore(func(ch vrt.Chooser) explore.Outcome {
							cp := append([]sub{}, subs...)
							return runReceipts(p.Cap, p.Mode, cp, true, ch)
						}, explore.Config{Bound: 0})
						add(st, fmt.Sprintf("cap=%d service=%s [%s]", p.Cap, p.Mode, desc))
					}
				}
			}
		} else {
			var subs []sub
			for _, s := range p.Subs {
				f := strings.SplitN(s, ":", 2)
				subs = append(subs, sub{Who: f[0], T: byName[f[1]]})
			}
			st := explore.Explore(func(ch vrt.Chooser) explore.Outcome {
				cp := append([]sub{}, subs...)
				return runReceipts(p.Cap, p.Mode, cp, p.Seq, ch)
			}, explore.Config{Bound: p.Bound})
			add(st, fmt.Sprintf("cap=%d service=%s concurrent %v", p.Cap, p.Mode, p.Subs))
		}
		res.Outcomes = len(outcomes)
		res.Samples = []any{map[string]any{"capacity": p.Cap, "service": p.Mode, "submissions": p.Subs, "triples": len(alpha)}}
		return res
	})
	check.RegisterProp("C19", func(tier string) []check.Job {
		var jobs []check.Job
		b := 2
		for _, mode := range []string{"200", "500", "error", "never"} {
			for sh := 0; sh < 2; sh++ {
				p, _ := json.Marshal(c19Params{Cap: 128, Mode: mode, Pairs: true, Shard: sh, Shards: 2})
				jobs = append(jobs, check.Job{Kind: "c19", Name: "IN:receipt-pairs", Params: p})
			}
		}
		if tier == "thorough" {
			// every ordered triple of submissions (a, b, a) for each service behaviour
			for _, mode := range []string{"200", "500", "error", "never"} {
				for sh := 0; sh < 4; sh++ {
					p, _ := json.Marshal(c19Params{Cap: 128, Mode: mode, Pairs: true, Triples: true, Shard: sh, Shards: 4})
					jobs = append(jobs, check.Job{Kind: "c19", Name: "IN:receipt-triples", Params: p})
				}
			}
			for sh := 0; sh < 4; sh++ {
				p, _ := json.Marshal(c19Params{Cap: 1, Mode: "200", Pairs: true, Triples: true, Shard: sh, Shards: 4})
				jobs = append(jobs, check.Job{Kind: "c19", Name: "IN:receipt-triples-cap1", Params: p})
			}
			b = 3
		}
		// an outage of the credit service (10 / 20 failed posts in a row), then it is back:
		// what is accepted afterwards is forwarded as ever
		for _, k := range []int{10, 20} {
			var subs []string
			for i := 0; i < k+3; i++ {
				subs = append(subs, []string{"a:valid", "b:valid-2"}[i%2])
			}
			po, _ := json.Marshal(c19Params{Cap: 128, Mode: fmt.Sprintf("down-%d", k), Subs: subs, Seq: true})
			jobs = append(jobs, check.Job{Kind: "c19", Name: "IN:receipt-outage-then-recovery", Params: po})
		}
		p1, _ := json.Marshal(c19Params{Cap: 1, Mode: "200", Pairs: true})
		p1f, _ := json.Marshal(c19Params{Cap: 1, Mode: "never", Pairs: true, Fill: true})
		jobs = append(jobs, check.Job{Kind: "c19", Name: "IN:receipt-pairs-cap1", Params: p1}, check.Job{Kind: "c19", Name: "IN:receipt-pairs-queue-full", Params: p1f})
		kinds := []string{"valid", "hash-of-another-text", "signature-empty"}
		for _, cap := range []int{1, 2} {
			for _, k1 := range kinds {
				for _, k2 := range kinds {
					for _, mode := range []string{"200", "never"} {
						subs := []string{"a:" + k1, "b:" + k2, "a:valid-2"}
						p, _ := json.Marshal(c19Params{Cap: cap, Mode: mode, Subs: subs, Bound: b})
						jobs = append(jobs, check.Job{Kind: "c19", Name: "S3:receipts-concurrent", Params: p, BudgetS: 600})
					}
				}
			}
		}
		return jobs
	}, check.PropInfo{
		Rule:        "triples = one valid (receipt, hash, signature) and every single-field corruption (each field emptied; hash of another text, truncated, 33/44 bytes with the right suffix or prefix, one bit flipped, leading zero stripped; signature 64/66 bytes, bad recovery id, zero r/s, over another hash, garbage; text changed after signing); sequential: every single triple and every ordered pair (thorough: every ordered triple of submissions) x credit service {200, 500, transport error, never answers} x queue capacity {1, 128}; concurrent: three submissions from two connections fired at once, queue capacity 1 and 2, every interleaving of the two main loops and the forwarder thread (preemption-bounded). Oracle: a harness-owned http.RoundTripper as credit service; forwarded <=> Keccak-256(text) = hash and the signature is recoverable (go-ethereum primitives called directly) and the submission was accepted; at most once; body field-for-field equal; exactly one answer per submission of the allowed kind; no main loop ever waits on the queue.",
		Assumptions: []string{"the answer is observed where the property puts it (messages handed to the connection); the teardown that follows an erroneous receipt is not counted against it", "receiver/sender threads eager"},
	})
}

// c19concurrent: three submissions from two connections fired at once (the
// queue can be found full), forwarder interleaved.
func c19concurrent(cap int, mode string, bound int) check.Job {
	p, _ := json.Marshal(c19Params{Cap: cap, Mode: mode, Subs: []string{"a:valid", "b:valid", "a:valid-2"}, Bound: bound})
	return check.Job{Kind: "c19", Name: "S3:receipts-concurrent", Params: p, BudgetS: 300}
}
