package props

import (
	"encoding/json"
	"fmt"
	"sort"
	"strings"
	"time"

	"github.com/aukilabs/hagall-common/messages/hagallpb"

	"verif/check"
	"verif/explore"
	"verif/vrt"
	"verif/world"
)

// ---- C11: pose updates in order, coalesced per frame, the latest arrives ---------------

// pact is one environment action of a pose scenario.
type pact struct {
	K string // pose, nopose, foreign, unknown, tick, edel, cjoin, switch, close, eadd
	E int    // entity index (0,1) of the owner
}

func (a pact) String() string {
	if a.K == "pose" || a.K == "edel" || a.K == "nopose" {
		return fmt.Sprintf("%s(e%d)", a.K, a.E)
	}
	return a.K
}

type poseRun struct {
	x       *Ctx
	ents    []uint32             // owner's entities
	foreign uint32               // b's entity
	seq     int                  // next px
	sent    map[uint32][]float32 // per entity: px values sent by the owner, in order
	lastEff map[uint32]float32   // last px the owner sent while it owned the live entity in that session
	deleted map[uint32]bool
	ownerIn bool
	badTS   map[int64]string // origin timestamps of updates that must be dropped
	cJoined bool
}

func runPose(script []pact, ch vrt.Chooser, explore3 bool) (out explore.Outcome) {
	w := world.New(world.Config{}, ch)
	s := w.S
	s.EagerLabels = []string{eagerPrefix}
	s.NoPreempt = true
	x := &Ctx{W: w, C: map[string]*world.Client{}, J: map[string]JoinInfo{}, Vars: map[string]any{}}
	fail := func(oracle, detail, f string, a ...any) {
		x.V = append(x.V, explore.Violation{Oracle: oracle, Detail: detail, Info: fmt.Sprintf(f, a...)})
	}
	// the owner's receiver/sender are explored too; everybody else's are eager
	var ownerRoot *vrt.Thread
	s.EagerFn = func(t *vrt.Thread) bool {
		if !strings.HasPrefix(t.Label, eagerPrefix) {
			return false
		}
		return ownerRoot == nil || t.Root() != ownerRoot
	}
	x.C["a"] = w.Connect("a")
	ownerRoot = x.C["a"].Thread
	w.Run()
	x.conn("b", "c")
	x.join("a", "")
	sid := x.J["a"].SessionID
	x.join("b", sid)
	r := &poseRun{x: x, sent: map[uint32][]float32{}, lastEff: map[uint32]float32{}, deleted: map[uint32]bool{}, ownerIn: true, badTS: map[int64]string{}}
	addEnt := func(n string) uint32 {
		c := x.C[n]
		rid := c.NextReqID()
		c.SendMsg(&hagallpb.EntityAddRequest{Type: hagallpb.MsgType_MSG_TYPE_ENTITY_ADD_REQUEST, Timestamp: w.NextTS(), RequestId: rid, Pose: &hagallpb.Pose{Px: 0.5}})
		w.Run()
		for _, m := range c.All() {
			if e, ok := m.Msg.(*hagallpb.EntityAddResponse); ok && e.RequestId == rid {
				return e.EntityId
			}
		}
		panic("entity add not answered")
	}
	r.ents = []uint32{addEnt("a"), addEnt("a")}
	r.foreign = addEnt("b")
	for _, e := range r.ents {
		r.lastEff[e] = 0.5
	}
	a := x.C["a"]
	var env []func()
	for _, act := range script {
		act := act
		env = append(env, func() {
			switch act.K {
			case "pose":
				r.seq++
				e := r.ents[act.E]
				a.SendMsg(&hagallpb.EntityUpdatePose{Type: hagallpb.MsgType_MSG_TYPE_ENTITY_UPDATE_POSE, Timestamp: w.NextTS(), EntityId: e, Pose: &hagallpb.Pose{Px: float32(r.seq)}})
				r.sent[e] = append(r.sent[e], float32(r.seq))
				if r.ownerIn && !r.deleted[e] {
					r.lastEff[e] = float32(r.seq)
				}
			case "nopose":
				ts := w.NextTS()
				r.badTS[ts.Seconds] = "update without pose"
				a.SendMsg(&hagallpb.EntityUpdatePose{Type: hagallpb.MsgType_MSG_TYPE_ENTITY_UPDATE_POSE, Timestamp: ts, EntityId: r.ents[act.E]})
			case "foreign":
				ts := w.NextTS()
				r.badTS[ts.Seconds] = "update of a foreign entity"
				a.SendMsg(&hagallpb.EntityUpdatePose{Type: hagallpb.MsgType_MSG_TYPE_ENTITY_UPDATE_POSE, Timestamp: ts, EntityId: r.foreign, Pose: &hagallpb.Pose{Px: 777}})
			case "unknown":
				ts := w.NextTS()
				r.badTS[ts.Seconds] = "update of an unknown entity"
				a.SendMsg(&hagallpb.EntityUpdatePose{Type: hagallpb.MsgType_MSG_TYPE_ENTITY_UPDATE_POSE, Timestamp: ts, EntityId: 9999, Pose: &hagallpb.Pose{Px: 888}})
			case "tick":
				s.Advance(w.Cfg.FrameDuration)
			case "edel":
				e := r.ents[act.E]
				a.SendMsg(&hagallpb.EntityDeleteRequest{Type: hagallpb.MsgType_MSG_TYPE_ENTITY_DELETE_REQUEST, Timestamp: w.NextTS(), RequestId: a.NextReqID(), EntityId: e})
				r.deleted[e] = true
			case "cjoin", "tickjoin":
				if act.K == "tickjoin" {
					s.Advance(w.Cfg.FrameDuration)
				}
				m, _ := joinReq(w, x.C["c"], sid)
				x.C["c"].SendMsg(m)
				r.cJoined = true
			case "switch":
				m, _ := joinReq(w, a, "")
				a.SendMsg(m)
				r.ownerIn = false
			case "close":
				a.Close()
				r.ownerIn = false
			}
		})
	}
	s.NoPreempt = false
	s.ForgetLastRun()
	s.RunScript(env)
	s.NoPreempt = true
	if st := stuck(s); len(st) > 0 {
		fail("deadlock", stuckClass(s), "threads blocked forever: %v", st)
	} else {
		// "within a few frames"
		for i := 0; i < 3; i++ {
			w.Tick(w.Cfg.FrameDuration)
		}
		if a.HandlerPanic != nil {
			fail("panic", "owner-handler-panicked", "the owner's connection handler panicked: %v", a.HandlerPanic)
		}
		observers := []string{"b"}
		if r.cJoined {
			observers = append(observers, "c")
		}
		// probe
		x.conn("probe")
		pj := join(w, x.C["probe"], sid)
		probePose := map[uint32]float32{}
		if pj.OK && pj.State != nil {
			for _, e := range pj.State.Entities {
				probePose[e.Id] = e.Pose.GetPx()
			}
		} else {
			fail("probe", "probe-cannot-join", "probe refused: %v", pj.Code)
		}
		for _, n := range observers {
			last := map[uint32]float32{}
			lastRelay := map[uint32]float32{}
			gone := map[uint32]bool{}
			state := map[uint32]float32{}
			for _, m := range x.C[n].All() {
				switch v := m.Msg.(type) {
				case *hagallpb.SessionState:
					for _, e := range v.Entities {
						state[e.Id] = e.Pose.GetPx()
						last[e.Id] = e.Pose.GetPx()
					}
				case *hagallpb.EntityAddBroadcast:
					last[v.Entity.GetId()] = v.Entity.GetPose().GetPx()
				case *hagallpb.EntityDeleteBroadcast:
					gone[v.EntityId] = true
				case *hagallpb.EntityUpdatePoseBroadcast:
					px := v.Pose.GetPx()
					if why, bad := r.badTS[v.OriginTimestamp.GetSeconds()]; bad {
						fail("relay", "dropped-update-relayed", "%s received a pose relay caused by an %s", n, why)
					}
					if gone[v.EntityId] {
						fail("order", "pose-after-delete", "%s received a pose relay for entity %d after its deletion had been relayed", n, v.EntityId)
					}
					// among relays: strictly increasing; relative to the state handed on
					// joining (not a relay): never older
					if prev, ok := lastRelay[v.EntityId]; ok && px <= prev {
						fail("order", "pose-reordered-or-repeated", "%s received the relay px=%v for entity %d after the relay px=%v", n, px, v.EntityId, prev)
					} else if prev, ok := last[v.EntityId]; ok && px < prev {
						fail("order", "pose-older-than-state", "%s received the relay px=%v for entity %d after having been handed px=%v", n, px, v.EntityId, prev)
					}
					lastRelay[v.EntityId] = px
					last[v.EntityId] = px
				}
			}
			if n == "c" && r.ownerIn {
				// the joiner: what it holds after 3 further frames must be the latest pose.
				// stateFirst: the value it would hold had its SESSION_STATE been applied
				// before the relays enqueued ahead of it (known join-snapshot race).
				for _, e := range r.ents {
					if r.deleted[e] {
						continue
					}
					if last[e] != r.lastEff[e] {
						sf := state[e]
						for _, m := range x.C[n].All() {
							if v, ok := m.Msg.(*hagallpb.EntityUpdatePoseBroadcast); ok && v.EntityId == e {
								sf = v.Pose.GetPx()
							}
						}
						class := "joiner-never-told"
						if sf == r.lastEff[e] {
							class = "joiner-state-overtaken-by-relay"
						}
						fail("latest", "latest-pose-not-at-joiner:"+class, "the owner's most recent pose of entity %d is px=%v; the participant that joined midway holds px=%v", e, r.lastEff[e], last[e])
					}
				}
			}
			if n == "b" {
				for _, e := range r.ents {
					if r.deleted[e] {
						continue
					}
					if !r.ownerIn {
						continue // the owner left first: its entities are gone
					}
					if last[e] != r.lastEff[e] {
						fail("latest", "latest-pose-not-relayed", "the owner's most recent pose of entity %d is px=%v; after 3 further frames %s has px=%v (sent: %v)", e, r.lastEff[e], n, last[e], r.sent[e])
					}
				}
			}
		}
		if r.ownerIn {
			for _, e := range r.ents {
				if r.deleted[e] {
					if _, ok := probePose[e]; ok {
						fail("probe", "deleted-entity-in-state", "entity %d was deleted but a newcomer is handed it", e)
					}
					continue
				}
				if probePose[e] != r.lastEff[e] {
					fail("latest", "newcomer-not-handed-latest-pose", "the owner's most recent pose of entity %d is px=%v, a newcomer is handed px=%v", e, r.lastEff[e], probePose[e])
				}
			}
		}
		if probePose[r.foreign] != 0.5 {
			fail("ownership", "foreign-entity-moved", "b's entity was moved to px=%v by a's update", probePose[r.foreign])
		}
	}
	left := w.Finish()
	if len(left) > 0 {
		fail("teardown", "threads-left:"+leftoverClass(left), "threads never finished: %s", leftoverString(left))
	}
	out.Points, out.Steps, out.HitCap = s.Points, s.Steps, s.HitCap
	out.Violations = x.V
	var ks []string
	for _, n := range []string{"b", "c"} {
		k := n + ":"
		for _, m := range x.C[n].All() {
			if v, ok := m.Msg.(*hagallpb.EntityUpdatePoseBroadcast); ok {
				k += fmt.Sprintf("%d=%v,", v.EntityId, v.Pose.GetPx())
			}
		}
		ks = append(ks, k)
	}
	sort.Strings(ks)
	out.Key = strings.Join(ks, ";")
	return out
}

var poseScripts = map[string][]pact{
	"two-updates-then-tick":   {{"pose", 0}, {"pose", 0}, {"tick", 0}},
	"update-tick-update-tick": {{"pose", 0}, {"tick", 0}, {"pose", 0}, {"tick", 0}},
	"three-updates-two-ents":  {{"pose", 0}, {"pose", 1}, {"pose", 0}, {"tick", 0}},
	"update-vs-delete":        {{"pose", 0}, {"edel", 0}, {"tick", 0}},
	"delete-then-update":      {{"pose", 0}, {"tick", 0}, {"edel", 0}, {"pose", 0}, {"tick", 0}},
	"joiner-midway":           {{"pose", 0}, {"cjoin", 0}, {"tick", 0}, {"pose", 0}, {"tick", 0}},
	"joiner-vs-flush":         {{"pose", 0}, {"tick", 0}, {"cjoin", 0}},
	"joiner-with-flush":       {{"pose", 0}, {"tickjoin", 0}},
	"switch-with-pending":     {{"pose", 0}, {"switch", 0}, {"tick", 0}},
	"close-with-pending":      {{"pose", 0}, {"close", 0}, {"tick", 0}},
	"dropped-updates":         {{"foreign", 0}, {"unknown", 0}, {"pose", 0}, {"tick", 0}},
	"update-without-pose":     {{"nopose", 0}, {"pose", 1}, {"tick", 0}},
	"five-updates":            {{"pose", 0}, {"pose", 0}, {"tick", 0}, {"pose", 0}, {"pose", 1}, {"pose", 0}, {"tick", 0}},
	"tick-tick-update":        {{"tick", 0}, {"pose", 0}, {"tick", 0}, {"tick", 0}, {"pose", 0}},
}

type c11Params struct {
	Script           string `json:"script"`
	Bound            int    `json:"bound"`
	ShardIdx, ShardN int
}

func init() {
	check.Register("c11", func(j *check.Job) *check.Result {
		var p c11Params
		json.Unmarshal(j.Params, &p)
		script := poseScripts[p.Script]
		res := &check.Result{Bound: p.Bound, Extra: map[string]any{"script": fmt.Sprint(script)}}
		if j.Replay != nil {
			out := runPose(script, &explore.FixedChooser{Choices: j.Replay.Choices}, true)
			fmt.Println("   outcome:", out.Key)
			for _, v := range out.Violations {
				fmt.Println("   !!", v.Oracle, v.Detail, v.Info)
				res.Violations = append(res.Violations, check.Violation{Scenario: j.Name, Oracle: v.Oracle, Detail: v.Detail, Info: v.Info})
			}
			res.Executions, res.Exhaustive = 1, true
			return res
		}
		cfg := explore.Config{Bound: p.Bound, ShardIdx: p.ShardIdx, ShardN: p.ShardN}
		if j.BudgetS > 0 {
			cfg.Deadline = time.Now().Add(time.Duration(j.BudgetS) * time.Second)
		}
		st := explore.Explore(func(ch vrt.Chooser) explore.Outcome { return runPose(script, ch, true) }, cfg)
		res.Executions, res.States, res.Transitions, res.Steps = st.Executions, st.Executions, st.Points, st.Steps
		res.Outcomes, res.Exhaustive, res.CapHit, res.MaxDepth = len(st.Outcomes), st.Exhaustive, st.CapHit, st.MaxPoints
		res.BoundDone = &st.BoundDone

		if len(st.Diverged) > 0 {
			res.EngineError = "replay divergence: " + st.Diverged[0]
		}
		res.Extra["executions_by_deviations"] = st.ByCost
		seen := map[string]bool{}
		for _, f := range st.Found {
			if !seen[f.Oracle+f.Detail] {
				seen[f.Oracle+f.Detail] = true
				res.Violations = append(res.Violations, check.Violation{Scenario: j.Name, Oracle: f.Oracle, Detail: f.Detail, Info: fmt.Sprintf("script %v: %s", script, f.Info), Replay: &check.Replay{Choices: trimZeros(f.Prefix)}})
			}
		}
		res.Samples = []any{map[string]any{"script": fmt.Sprint(script), "bound": p.Bound}}
		return res
	})
	check.RegisterProp("C11", func(tier string) []check.Job {
		b, budget := 1, 200
		if tier == "thorough" {
			b, budget = 2, 1500
		}
		var names []string
		for n := range poseScripts {
			names = append(names, n)
		}
		sort.Strings(names)
		var jobs []check.Job
		for _, n := range names {
			sh := 1
			if tier == "thorough" {
				sh = 4
			}
			for i := 0; i < sh; i++ {
				p, _ := json.Marshal(c11Params{Script: n, Bound: b, ShardIdx: i, ShardN: sh})
				jobs = append(jobs, check.Job{Kind: "c11", Name: "S3:pose-" + n, Params: p, BudgetS: budget})
			}
		}
		d := 6
		if tier == "thorough" {
			d = 8
		}
		jobs = append(jobs, s1job("entities", d, []string{"C11"}, 6, budget), s1job("pose-churn", d, []string{"C11"}, 6, budget))
		// membership changes racing with a frame / with each other: afterwards every member's
		// coalesced updates must still be flushed (oracle `liveness` of the pair blocks)
		for _, p := range pairList {
			sel := false
			for _, r := range p {
				if r.Kind == "join" || r.Kind == "leave" || r.Kind == "switch" {
					sel = true
				}
			}
			if sel && (len(p) == 2 || tier == "thorough") {
				jobs = append(jobs, s2job(pairName(p...), b, budget))
			}
		}
		return jobs
	}, check.PropInfo{
		Rule:        "S3: scripts of the owner's pose updates (sequence number in px) over two entities mixed with deletes, a joiner, a session switch, a close, updates that must be dropped (foreign / unknown entity, no pose) and frame ticks; the environment actions of a script are taken at quiescence by default and any of them may be taken early (1 deviation each), while the owner's receiver, main loop and sender and the session's frame worker are interleaved at lock/channel granularity (preemption-bounded): tick placement relative to arrival and to consumption is therefore enumerated. Oracle: per observer and entity px strictly increasing; after 3 further frames the last effective px is what b holds and what a newcomer is handed; no pose relay after the delete relay; dropped updates cause no relay and move nothing. Plus the S1 family `entities` (sequential coalescing semantics against the reference model).",
		Assumptions: []string{"FrameDuration matters only through the order of events under the virtual clock: any frame duration is covered by tick placement", "observers' receiver/sender threads eager"},
	})
}
