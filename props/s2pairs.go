package props

import (
	"fmt"
	"sort"
	"strings"

	"github.com/aukilabs/hagall-common/messages/hagallpb"
	"github.com/aukilabs/hagall-common/messages/odalpb"
	"github.com/aukilabs/hagall-common/messages/vikjapb"
	"google.golang.org/protobuf/proto"
	"google.golang.org/protobuf/types/known/timestamppb"

	"verif/check"
	"verif/s1"
	"verif/world"
)

// ---- S2 blocks over a shared session: convergence (C01), exactly-once relay
// (C02), isolation under concurrency (C03), with the race oracle (C09) --------------
//
// Base state B1: session S = {a, b, c}; d connected, unjoined, knows S's id.
// a owns entity ea, b owns eb (both non-persistent); type T registered by a;
// c subscribed to T since before any component existed; component (T, ea)
// present; action (ea, "n") and asset on eb present (vikja, odal loaded).

type pairReq struct {
	Who  string
	Kind string
}

// breq describes one request of a block at run time.
type breq struct {
	pairReq
	rid    uint32
	ts     int64
	msg    proto.Message
	tick   bool // needs a frame tick to be processed
	accept func(resp []*world.Recv) bool
	// own applies the requester's own accepted change to its view
	own func(v *s1.View, resp *world.Recv)
	// relayType: message type of the relay this request causes (0 = none)
	relayType int32
}

var pairKinds = []string{"eadd", "edel", "pose", "cadd", "cupd", "cdel", "action", "asset", "custom", "customto", "leave", "join"}

// ownFn applies a requester's own accepted change to its replica.
type ownFn func(v *s1.View, r *world.Recv)

func regOwn(x *Ctx, who string, rid uint32, f ownFn) {
	m, _ := x.Vars["own:"+who].(map[uint32]ownFn)
	if m == nil {
		m = map[uint32]ownFn{}
		x.Vars["own:"+who] = m
	}
	m[rid] = f
}

func baseB1(x *Ctx) {
	x.conn("a", "b", "c", "d")
	x.join("a", "")
	sid := x.J["a"].SessionID
	x.join("b", sid)
	x.join("c", sid)
	add := func(n string) uint32 {
		c := x.C[n]
		rid := c.NextReqID()
		c.SendMsg(&hagallpb.EntityAddRequest{Type: hagallpb.MsgType_MSG_TYPE_ENTITY_ADD_REQUEST, Timestamp: x.W.NextTS(), RequestId: rid, Pose: &hagallpb.Pose{Px: 1}})
		x.W.Run()
		pid := x.J[n].ParticipantID
		regOwn(x, n, rid, func(v *s1.View, r *world.Recv) {
			id := r.Msg.(*hagallpb.EntityAddResponse).EntityId
			v.Ents[id] = fmt.Sprintf("(%d,o%d,f0,1/0/0/0/0/0/0)", id, pid)
		})
		for _, r := range c.All() {
			if m, ok := r.Msg.(*hagallpb.EntityAddResponse); ok && m.RequestId == rid {
				return m.EntityId
			}
		}
		panic("setup: entity add not answered")
	}
	x.Vars["ea"] = add("a")
	x.Vars["eb"] = add("b")
	a := x.C["a"]
	rid := a.NextReqID()
	a.SendMsg(&hagallpb.EntityComponentTypeAddRequest{Type: hagallpb.MsgType_MSG_TYPE_ENTITY_COMPONENT_TYPE_ADD_REQUEST, Timestamp: x.W.NextTS(), RequestId: rid, EntityComponentTypeName: "T"})
	x.W.Run()
	for _, r := range a.All() {
		if m, ok := r.Msg.(*hagallpb.EntityComponentTypeAddResponse); ok && m.RequestId == rid {
			x.Vars["tid"] = m.EntityComponentTypeId
		}
	}
	tid := x.Vars["tid"].(uint32)
	c := x.C["c"]
	c.SendMsg(&hagallpb.EntityComponentTypeSubscribeRequest{Type: hagallpb.MsgType_MSG_TYPE_ENTITY_COMPONENT_TYPE_SUBSCRIBE_REQUEST, Timestamp: x.W.NextTS(), RequestId: c.NextReqID(), EntityComponentTypeId: tid})
	x.W.Run()
	ea := x.Vars["ea"].(uint32)
	rid = a.NextReqID()
	regOwn(x, "a", rid, func(v *s1.View, r *world.Recv) { v.Comps[s1.CompKey{T: tid, E: ea}] = "c0" })
	a.SendMsg(&hagallpb.EntityComponentAddRequest{Type: hagallpb.MsgType_MSG_TYPE_ENTITY_COMPONENT_ADD_REQUEST, Timestamp: x.W.NextTS(), RequestId: rid, EntityComponentTypeId: tid, EntityId: ea, Data: []byte("c0")})
	x.W.Run()
	rid = a.NextReqID()
	regOwn(x, "a", rid, func(v *s1.View, r *world.Recv) {
		v.Actions[fmt.Sprintf("%d/n", ea)] = fmt.Sprintf("(%d,%q,%d,%q)", ea, "n", int64(10e9), "a0")
	})
	a.SendMsg(&vikjapb.EntityActionRequest{Type: vikjapb.MsgType_MSG_TYPE_VIKJA_ENTITY_ACTION_REQUEST, Timestamp: x.W.NextTS(), RequestId: rid, EntityAction: &vikjapb.EntityAction{EntityId: x.Vars["ea"].(uint32), Name: "n", Timestamp: &timestamppb.Timestamp{Seconds: 10}, Data: []byte("a0")}})
	x.W.Run()
	b := x.C["b"]
	eb := x.Vars["eb"].(uint32)
	bpid := x.J["b"].ParticipantID
	rid = b.NextReqID()
	regOwn(x, "b", rid, func(v *s1.View, r *world.Recv) {
		v.Assets[eb] = fmt.Sprintf("(#%d,%q,p%d,e%d)", r.Msg.(*odalpb.AssetInstanceAddResponse).AssetInstanceId, "x0", bpid, eb)
	})
	b.SendMsg(&odalpb.AssetInstanceAddRequest{Type: odalpb.MsgType_MSG_TYPE_ODAL_ASSET_INSTANCE_ADD_REQUEST, Timestamp: x.W.NextTS(), RequestId: rid, EntityId: eb, AssetId: "x0"})
	x.W.Run()
}

func hasType(rs []*world.Recv, t int32) bool {
	for _, r := range rs {
		if r.Type == t {
			return true
		}
	}
	return false
}

// build creates the wire request of one block member.
func buildReq(x *Ctx, pr pairReq) *breq {
	c := x.C[pr.Who]
	tsp := x.W.NextTS()
	q := &breq{pairReq: pr, ts: tsp.Seconds}
	ownE := x.Vars["e"+pr.Who]
	var own uint32
	if ownE != nil {
		own = ownE.(uint32)
	}
	ea := x.Vars["ea"].(uint32)
	tid := x.Vars["tid"].(uint32)
	mypid := x.J[pr.Who].ParticipantID
	okType := func(t int32) func([]*world.Recv) bool {
		return func(rs []*world.Recv) bool { return hasType(rs, t) }
	}
	switch pr.Kind {
	case "eadd":
		q.rid = c.NextReqID()
		q.msg = &hagallpb.EntityAddRequest{Type: hagallpb.MsgType_MSG_TYPE_ENTITY_ADD_REQUEST, Timestamp: tsp, RequestId: q.rid, Pose: &hagallpb.Pose{Px: 7}, Flag: 1}
		q.accept, q.relayType = okType(9), 10
		q.own = func(v *s1.View, r *world.Recv) {
			id := r.Msg.(*hagallpb.EntityAddResponse).EntityId
			v.Ents[id] = fmt.Sprintf("(%d,o%d,f1,7/0/0/0/0/0/0)", id, mypid)
		}
	case "edel":
		q.rid = c.NextReqID()
		q.msg = &hagallpb.EntityDeleteRequest{Type: hagallpb.MsgType_MSG_TYPE_ENTITY_DELETE_REQUEST, Timestamp: tsp, RequestId: q.rid, EntityId: own}
		q.accept, q.relayType = okType(12), 13
		q.own = func(v *s1.View, r *world.Recv) { v.DropEntity(own) }
	case "pose":
		q.msg = &hagallpb.EntityUpdatePose{Type: hagallpb.MsgType_MSG_TYPE_ENTITY_UPDATE_POSE, Timestamp: tsp, EntityId: own, Pose: &hagallpb.Pose{Px: 42}}
		q.tick, q.relayType = true, 15
	case "cadd":
		q.rid = c.NextReqID()
		q.msg = &hagallpb.EntityComponentAddRequest{Type: hagallpb.MsgType_MSG_TYPE_ENTITY_COMPONENT_ADD_REQUEST, Timestamp: tsp, RequestId: q.rid, EntityComponentTypeId: tid, EntityId: x.Vars["eb"].(uint32), Data: []byte("c-" + pr.Who)}
		q.accept, q.relayType = okType(25), 26
		q.own = func(v *s1.View, r *world.Recv) { v.Comps[s1.CompKey{T: tid, E: x.Vars["eb"].(uint32)}] = "c-" + pr.Who }
	case "cupd":
		q.msg = &hagallpb.EntityComponentUpdate{Type: hagallpb.MsgType_MSG_TYPE_ENTITY_COMPONENT_UPDATE, Timestamp: tsp, EntityComponentTypeId: tid, EntityId: ea, Data: []byte("u-" + pr.Who)}
		q.tick, q.relayType = true, 31
	case "cdel":
		q.rid = c.NextReqID()
		q.msg = &hagallpb.EntityComponentDeleteRequest{Type: hagallpb.MsgType_MSG_TYPE_ENTITY_COMPONENT_DELETE_REQUEST, Timestamp: tsp, RequestId: q.rid, EntityComponentTypeId: tid, EntityId: ea}
		q.accept, q.relayType = okType(28), 29
		q.own = func(v *s1.View, r *world.Recv) { delete(v.Comps, s1.CompKey{T: tid, E: ea}) }
	case "action":
		q.rid = c.NextReqID()
		sec := int64(20)
		if pr.Who == "b" {
			sec = 30
		}
		act := &vikjapb.EntityAction{EntityId: ea, Name: "n", Timestamp: &timestamppb.Timestamp{Seconds: sec}, Data: []byte("a-" + pr.Who)}
		q.msg = &vikjapb.EntityActionRequest{Type: vikjapb.MsgType_MSG_TYPE_VIKJA_ENTITY_ACTION_REQUEST, Timestamp: tsp, RequestId: q.rid, EntityAction: act}
		q.accept, q.relayType = okType(102), 103
		q.own = func(v *s1.View, r *world.Recv) {
			v.Actions[fmt.Sprintf("%d/n", ea)] = fmt.Sprintf("(%d,%q,%d,%q)", ea, "n", sec*1e9, "a-"+pr.Who)
		}
	case "asset":
		q.rid = c.NextReqID()
		q.msg = &odalpb.AssetInstanceAddRequest{Type: odalpb.MsgType_MSG_TYPE_ODAL_ASSET_INSTANCE_ADD_REQUEST, Timestamp: tsp, RequestId: q.rid, EntityId: own, AssetId: "x-" + pr.Who}
		q.accept, q.relayType = okType(202), 203
		q.own = func(v *s1.View, r *world.Recv) {
			iid := r.Msg.(*odalpb.AssetInstanceAddResponse).AssetInstanceId
			v.Assets[own] = fmt.Sprintf("(#%d,%q,p%d,e%d)", iid, "x-"+pr.Who, mypid, own)
		}
	case "custom":
		q.msg = &hagallpb.CustomMessage{Type: hagallpb.MsgType_MSG_TYPE_CUSTOM_MESSAGE, Timestamp: tsp, Body: []byte("m-" + pr.Who)}
		q.relayType = 17
	case "customto":
		other := "a"
		if pr.Who == "a" {
			other = "b"
		}
		q.msg = &hagallpb.CustomMessage{Type: hagallpb.MsgType_MSG_TYPE_CUSTOM_MESSAGE, Timestamp: tsp, Body: []byte("t-" + pr.Who), ParticipantIds: []uint32{x.J[other].ParticipantID, x.J["c"].ParticipantID}}
		q.relayType = 17
	case "unsub":
		q.rid = c.NextReqID()
		q.msg = &hagallpb.EntityComponentTypeUnsubscribeRequest{Type: hagallpb.MsgType_MSG_TYPE_ENTITY_COMPONENT_TYPE_UNSUBSCRIBE_REQUEST, Timestamp: tsp, RequestId: q.rid, EntityComponentTypeId: tid}
		q.accept = okType(37)
	case "leave":
		// client close
	case "join":
		q.rid = c.NextReqID()
		q.msg = &hagallpb.ParticipantJoinRequest{Type: hagallpb.MsgType_MSG_TYPE_PARTICIPANT_JOIN_REQUEST, Timestamp: tsp, RequestId: q.rid, SessionId: x.J["a"].SessionID}
		q.accept, q.relayType = okType(4), 5
	case "switch":
		q.rid = c.NextReqID()
		q.msg = &hagallpb.ParticipantJoinRequest{Type: hagallpb.MsgType_MSG_TYPE_PARTICIPANT_JOIN_REQUEST, Timestamp: tsp, RequestId: q.rid, SessionId: ""}
		q.accept = okType(4)
	default:
		panic("unknown pair kind " + pr.Kind)
	}
	return q
}

func respsOf(rs []*world.Recv, rid uint32) []*world.Recv {
	if rid == 0 {
		return nil
	}
	return respFor(rs, rid)
}

// finalView rebuilds the replica of client n from everything it received,
// applying its own accepted changes at the position of their responses.
func finalView(x *Ctx, n string, reqs []*breq) *s1.View {
	v := s1.NewView()
	byRID := map[uint32]ownFn{}
	if m, ok := x.Vars["own:"+n].(map[uint32]ownFn); ok {
		for rid, f := range m {
			byRID[rid] = f
		}
	}
	for _, q := range reqs {
		if q.Who == n && q.rid != 0 && q.own != nil {
			byRID[q.rid] = q.own
		}
	}
	for _, r := range x.C[n].All() {
		if rid := requestID(r.Msg); rid != 0 && isResponseType(r.Type) {
			if f := byRID[rid]; f != nil && r.Type != 0 {
				f(v, r)
			}
			if _, ok := r.Msg.(*hagallpb.EntityComponentListResponse); !ok {
				continue
			}
		}
		v.Apply(r, nil)
	}
	return v
}

func mkPairBlock(reqs ...pairReq) func() *Block { return mkPairBlockBase(baseB1, reqs...) }

// baseB1four: B1 with d also a member (joined last), so that a leaver can
// have two members behind it in join order.
func baseB1four(x *Ctx) {
	baseB1(x)
	x.join("d", x.J["a"].SessionID)
	x.Vars["four"] = true
}

func mkPairBlockBase(base func(*Ctx), reqs ...pairReq) func() *Block {
	return func() *Block {
		var built []*breq
		return &Block{
			Cfg:   world.Config{Modules: []string{"vikja", "odal"}},
			Setup: base,
			Fire: func(x *Ctx) {
				tick := false
				for _, pr := range reqs {
					q := buildReq(x, pr)
					built = append(built, q)
					if q.msg != nil {
						x.C[pr.Who].SendMsg(q.msg)
					} else {
						x.C[pr.Who].Close()
					}
					tick = tick || q.tick
				}
				if tick {
					// the frame ticker fires while the requests are being handled
					x.W.S.Advance(x.W.Cfg.FrameDuration)
				}
			},
			Check: func(x *Ctx) { pairOracles(x, built) },
			Final: finalInvariants,
		}
	}
}

// pairOracles: the schedule-quantified clauses of C01, C02 and C03.
func hasKind(reqs []*breq, k string) bool {
	for _, q := range reqs {
		if q.Kind == k {
			return true
		}
	}
	return false
}

func pairOracles(x *Ctx, reqs []*breq) {
	x.Vars["reqs"] = reqs
	// let coalesced updates flush: a pending update is a request in flight
	for i := 0; i < 2; i++ {
		x.W.Tick(x.W.Cfg.FrameDuration)
	}
	left := map[string]bool{}
	joined := map[string]bool{}
	for _, q := range reqs {
		if q.Kind == "leave" || q.Kind == "switch" {
			left[q.Who] = true
		}
		if q.Kind == "join" {
			joined[q.Who] = true
		}
	}
	members := []string{}
	base := []string{"a", "b", "c"}
	four := x.Vars["four"] != nil
	if four {
		base = append(base, "d")
	}
	for _, n := range base {
		if !left[n] {
			members = append(members, n)
		}
	}
	// every request with an id is answered exactly once
	accepted := map[*breq]bool{}
	for _, q := range reqs {
		all := x.C[q.Who].All()
		if q.rid != 0 {
			rs := respsOf(all, q.rid)
			if len(rs) != 1 {
				x.fail("answer-count", q.Kind+":answers", "%s's %s request got %d answers", q.Who, q.Kind, len(rs))
			}
			accepted[q] = q.accept != nil && q.accept(rs)
		} else {
			accepted[q] = true // pose / component update / custom: no answer; effect judged by the relays
		}
		if q.Kind == "join" && accepted[q] {
			ji := parseJoin(all, q.rid)
			x.J[q.Who] = ji
			members = append(members, q.Who)
		}
	}
	// C02: exactly-once relay, never echoed, per-sender order
	for _, q := range reqs {
		if q.relayType == 0 {
			continue
		}
		for _, n := range []string{"a", "b", "c", "d"} {
			cnt := 0
			for _, r := range x.C[n].All() {
				if r.Type == q.relayType && s1.Canon(r).Origin == q.ts {
					cnt++
				}
			}
			throughout := !left[n] && !joined[n] && (n != "d" || four)
			switch {
			case n == q.Who && cnt > 0:
				x.fail("relay", q.Kind+":echoed-to-sender", "%s's %s was relayed back to %s itself", q.Who, q.Kind, n)
			case n != q.Who && cnt > 1:
				x.fail("relay", q.Kind+":relayed-twice", "%s's %s reached %s %d times", q.Who, q.Kind, n, cnt)
			case n != q.Who && throughout && accepted[q] && cnt == 0 && relayRequired(x, q, n):
				x.fail("relay", q.Kind+":not-relayed", "%s's accepted %s never reached %s, a member throughout", q.Who, q.Kind, n)
			case !accepted[q] && cnt > 0:
				x.fail("relay", q.Kind+":refused-but-relayed", "%s's refused %s was relayed to %s", q.Who, q.Kind, n)
			}
		}
	}
	// A newcomer is a member from the moment its join is announced: a relay that
	// some member-throughout received AFTER the newcomer's join broadcast was
	// fanned out when the newcomer was already in the session (Broadcast holds the
	// participants read lock for the whole fan-out, AddParticipant needs the write
	// lock), so the newcomer is owed it too - whatever state snapshot it was handed.
	for _, jq := range reqs {
		if jq.Kind != "join" || !accepted[jq] {
			continue
		}
		dpid := x.J[jq.Who].ParticipantID
		for _, q := range reqs {
			if q == jq || q.relayType == 0 || q.Who == jq.Who || !accepted[q] {
				continue
			}
			switch q.Kind {
			case "cadd", "cupd", "cdel", "customto", "join":
				continue // subscription-based or explicitly addressed
			}
			owed := ""
			for _, n := range []string{"a", "b", "c"} {
				if n == q.Who || left[n] {
					continue
				}
				announced := false
				for _, r := range x.C[n].All() {
					if m, ok := r.Msg.(*hagallpb.ParticipantJoinBroadcast); ok && m.ParticipantId == dpid {
						announced = true
					}
					if announced && r.Type == q.relayType && s1.Canon(r).Origin == q.ts {
						owed = n
					}
				}
			}
			if owed == "" {
				continue
			}
			cnt := 0
			for _, r := range x.C[jq.Who].All() {
				if r.Type == q.relayType && s1.Canon(r).Origin == q.ts {
					cnt++
				}
			}
			if cnt == 0 {
				x.fail("relay", q.Kind+":not-relayed-to-announced-newcomer", "%s received %s's join broadcast and then %s's %s: the relay was fanned out with %s in the session, yet %s never received it", owed, jq.Who, q.Who, q.Kind, jq.Who, jq.Who)
			}
		}
	}
	// C12 under concurrency: of two adds of the same (type, entity) at most one succeeds
	var adds []*breq
	for _, q := range reqs {
		if q.Kind == "cadd" && accepted[q] {
			adds = append(adds, q)
		}
	}
	if len(adds) > 1 {
		x.fail("id", "component-added-twice", "two concurrent adds of the same (type, entity) component were both answered with success (%s and %s)", adds[0].Who, adds[1].Who)
	}
	// C13 under concurrency: once a member has been told that c - the only
	// subscriber of T - left, it is not notified of a change of a T component
	if left["c"] {
		cpid := x.J["c"].ParticipantID
		for _, n := range members {
			told := false
			for _, r := range x.C[n].All() {
				if m, ok := r.Msg.(*hagallpb.ParticipantLeaveBroadcast); ok && m.ParticipantId == cpid {
					told = true
					continue
				}
				if told && (r.Type == 26 || r.Type == 29 || r.Type == 31) {
					x.fail("relay", "component-notification-after-only-subscriber-left", "%s was told that c (the only subscriber of T) left and was then sent a %v for a T component", n, r.Msg.ProtoReflect().Descriptor().Name())
				}
			}
		}
	}
	// C13 under concurrency: no update notification after the answer to an unsubscribe
	for _, u := range reqs {
		if u.Kind != "unsub" {
			continue
		}
		after := false
		for _, r := range x.C[u.Who].All() {
			if r.Type == 37 && requestID(r.Msg) == u.rid {
				after = true
				continue
			}
			if after && r.Type == 31 {
				x.fail("relay", "cupd:update-after-unsubscribe", "%s received a component update notification after its unsubscribe had been answered", u.Who)
			}
		}
	}
	// C03: a connection that left S must not be sent S's traffic after the
	// answer to its join of the other session
	for _, sw := range reqs {
		if sw.Kind != "switch" {
			continue
		}
		after := false
		for _, r := range x.C[sw.Who].All() {
			if r.Type == 4 && requestID(r.Msg) == sw.rid {
				after = true
				continue
			}
			if !after {
				continue
			}
			for _, q := range reqs {
				if q.Who != sw.Who && q.relayType != 0 && r.Type == q.relayType && s1.Canon(r).Origin == q.ts {
					x.fail("isolation", q.Kind+":relayed-after-leaving", "%s had left the session (its join of another session was answered) and still received %s's %s", sw.Who, q.Who, q.Kind)
				}
			}
		}
	}
	// every member's connection must still be flushed by the session's frames:
	// a coalesced component update sent by each member in turn reaches the
	// subscriber c within two frames (if the component still exists)
	tidL := x.Vars["tid"].(uint32)
	eaL := x.Vars["ea"].(uint32)
	if sess, ok := x.W.Store.GetByGlobalID(x.J["a"].SessionID); ok && !hasKind(reqs, "unsub") && !left["c"] {
		has := false
		for _, ec := range sess.GetEntityComponents().List(tidL) {
			if ec.EntityId == eaL {
				has = true
			}
		}
		if _, live := sess.EntityByID(eaL); has && live {
			for _, n := range members {
				if n == "c" {
					continue
				}
				x.C["c"].Take()
				data := "post-" + n
				x.C[n].SendMsg(&hagallpb.EntityComponentUpdate{Type: hagallpb.MsgType_MSG_TYPE_ENTITY_COMPONENT_UPDATE, Timestamp: x.W.NextTS(), EntityComponentTypeId: tidL, EntityId: eaL, Data: []byte(data)})
				x.W.Run()
				x.W.Tick(x.W.Cfg.FrameDuration)
				x.W.Tick(x.W.Cfg.FrameDuration)
				got := false
				for _, r := range x.C["c"].All() {
					if m, ok := r.Msg.(*hagallpb.EntityComponentUpdateBroadcast); ok && string(m.EntityComponent.GetData()) == data {
						got = true
					}
				}
				if !got {
					x.fail("liveness", "member-no-longer-flushed:"+n, "after the block a component update sent by %s is never relayed (2 frames later): its connection is no longer flushed by the session's frame worker", n)
				}
			}
		}
	}
	// C01: every member's view equals what a newcomer is handed
	x.conn("probe")
	pj := join(x.W, x.C["probe"], x.J["a"].SessionID)
	if len(members) == 0 {
		return
	}
	if !pj.OK {
		x.fail("probe", "probe-cannot-join", "session has members %v but a probe is refused: %v", members, pj.Code)
		return
	}
	pv := s1.NewView()
	for _, r := range x.C["probe"].All() {
		pv.Apply(r, nil)
	}
	delete(pv.PIDs, pj.ParticipantID)
	tid := x.Vars["tid"].(uint32)
	mods := s1.Mods{Vikja: true, Odal: true}
	// C12 under concurrency: an acknowledged removal of (T, ea) - nothing in a
	// block adds it again - is final, whatever update of it was in flight
	for _, q := range reqs {
		if accepted[q] && (q.Kind == "cdel" || (q.Kind == "edel" && q.Who == "a")) {
			if d, ok := pv.Comps[s1.CompKey{T: tid, E: eaL}]; ok {
				x.fail("store", "removed-component-present", "%s's %s was acknowledged, yet a newcomer is handed component (T, ea) = %q (an update in flight re-created it)", q.Who, q.Kind, d)
			}
		}
	}
	for _, n := range members {
		v := finalView(x, n, reqs)
		delete(v.PIDs, pj.ParticipantID) // the probe's own join broadcast
		var types map[uint32]bool
		if n == "c" && !hasKind(reqs, "unsub") {
			types = map[uint32]bool{tid: true} // c is subscribed to T since before any component existed
		} else {
			types = map[uint32]bool{}
		}
		// response-less own updates: apply the final pose of own entities from the probe
		// only when nobody else can have changed them (only the owner moves an entity)
		for _, q := range reqs {
			if q.Who == n && q.Kind == "pose" {
				if id, ok := x.Vars["e"+n].(uint32); ok {
					if _, have := v.Ents[id]; have {
						if pe, ok := pv.Ents[id]; ok {
							v.Ents[id] = pe
						}
					}
				}
			}
		}
		have, want := v.State(types, mods), pv.State(types, mods)
		if have != want {
			class := diffClass(have, want)
			// Would the replica be right had the state handed on joining been
			// applied before the relays that were enqueued ahead of it? Then the
			// joiner's state message was overtaken by a relay (snapshot taken,
			// relay enqueued, state enqueued) - a different defect from a relay
			// that never reaches the joiner.
			if joined[n] {
				if sv := stateFirstView(x, n, reqs); sv != nil {
					delete(sv.PIDs, pj.ParticipantID)
					if sv.State(types, mods) == want {
						class = "state-overtaken-by-relay"
					} else {
						class = "never-told:" + class
					}
				}
			}
			x.fail("view", "view-differs:"+n+":"+class, "after the block the view of %s differs from what a newcomer is handed:\n   view : %s\n   probe: %s", n, have, want)
		}
	}
}

// stateFirstView replays n's stream with the state messages (SESSION_STATE and
// module states) moved in front of every relay.
func stateFirstView(x *Ctx, n string, reqs []*breq) *s1.View {
	v := s1.NewView()
	all := x.C[n].All()
	for _, r := range all {
		if r.Type == 2 || r.Type == 100 || r.Type == 200 {
			v.Apply(r, nil)
		}
	}
	for _, r := range all {
		if r.Type == 2 || r.Type == 100 || r.Type == 200 || isResponseType(r.Type) {
			continue
		}
		v.Apply(r, nil)
	}
	return v
}

// relayRequired: component relays are required only for subscribers.
func relayRequired(x *Ctx, q *breq, n string) bool {
	reqs := x.Vars["reqs"].([]*breq)
	switch q.Kind {
	case "cupd":
		// dropped if the component (T, ea) was removed first: by a delete of it or of ea
		for _, o := range reqs {
			if o.Kind == "cdel" || (o.Kind == "edel" && o.Who == "a") {
				return false
			}
		}
		return n == "c" && !hasKind(reqs, "unsub")
	case "cadd", "cdel":
		return n == "c" && !hasKind(x.Vars["reqs"].([]*breq), "unsub")
	case "customto":
		return true
	}
	return true
}

func diffClass(a, b string) string {
	fa, fb := strings.Fields(a), strings.Fields(b)
	var out []string
	for i := range fa {
		if i < len(fb) && fa[i] != fb[i] {
			out = append(out, strings.SplitN(fa[i], "=", 2)[0])
		}
	}
	sort.Strings(out)
	if len(out) > 3 {
		out = out[:3]
	}
	return strings.Join(out, "+")
}

func pairName(reqs ...pairReq) string {
	var parts []string
	for _, r := range reqs {
		parts = append(parts, r.Who+"."+r.Kind)
	}
	return "pair-" + strings.Join(parts, "-")
}

var pairList [][]pairReq
var fourList []string

func init() {
	aKinds := []string{"eadd", "edel", "pose", "cupd", "cdel", "action", "custom", "customto"}
	bKinds := []string{"eadd", "edel", "pose", "cadd", "action", "asset", "custom", "leave", "switch"}
	for _, ak := range aKinds {
		for _, bk := range bKinds {
			pairList = append(pairList, []pairReq{{"a", ak}, {"b", bk}})
		}
		pairList = append(pairList, []pairReq{{"a", ak}, {"d", "join"}})
	}
	pairList = append(pairList, []pairReq{{"b", "leave"}, {"d", "join"}}, []pairReq{{"b", "cadd"}, {"d", "join"}}, []pairReq{{"b", "asset"}, {"d", "join"}})
	pairList = append(pairList, []pairReq{{"a", "cadd"}, {"b", "cadd"}}, []pairReq{{"a", "cupd"}, {"c", "unsub"}}, []pairReq{{"a", "cdel"}, {"c", "unsub"}})
	// an update of a component against its removal (by delete, by deletion of
	// its entity): the removal always wins in the store; and a component add /
	// delete against the departure of the type's only subscriber
	pairList = append(pairList,
		[]pairReq{{"a", "cupd"}, {"b", "cdel"}}, []pairReq{{"a", "edel"}, {"b", "cupd"}}, []pairReq{{"a", "cdel"}, {"b", "cupd"}},
		[]pairReq{{"a", "cadd"}, {"c", "leave"}}, []pairReq{{"a", "cdel"}, {"c", "leave"}}, []pairReq{{"a", "cadd"}, {"c", "switch"}},
	)
	// triples
	pairList = append(pairList,
		[]pairReq{{"a", "eadd"}, {"b", "edel"}, {"d", "join"}},
		[]pairReq{{"a", "pose"}, {"b", "leave"}, {"d", "join"}},
		[]pairReq{{"a", "custom"}, {"b", "switch"}, {"d", "join"}},
	)
	for _, p := range pairList {
		registerBlock(pairName(p...), mkPairBlock(p...))
	}
	// four members: a relays while b (who has two members behind it in join order) leaves
	for _, ak := range []string{"custom", "eadd", "edel", "action"} {
		p := []pairReq{{"a", ak}, {"b", "leave"}}
		name := "four-" + pairName(p...)
		registerBlock(name, mkPairBlockBase(baseB1four, p...))
		fourList = append(fourList, name)
	}
	_ = check.Job{}
}

// pairJobs returns the S2 jobs over the pair catalogue.
func pairJobs(bound2, bound3, budget int, filter func([]pairReq) bool) []check.Job {
	var jobs []check.Job
	for _, p := range pairList {
		if filter != nil && !filter(p) {
			continue
		}
		b := bound2
		if len(p) > 2 {
			b = bound3
		}
		jobs = append(jobs, s2job(pairName(p...), b, budget))
	}
	if filter == nil {
		for _, n := range fourList {
			jobs = append(jobs, s2job(n, bound2, budget))
		}
	}
	return jobs
}

func init() {
	// the S2 jobs are appended to the S1 planners of C01, C02 and C03
	wrap := func(id string, sel func([]pairReq) bool) {
		check.WrapPlanner(id, func(tier string, jobs []check.Job) []check.Job {
			b2, b3, budget := 1, 1, 200
			if tier == "thorough" {
				b2, b3, budget = 2, 2, 1500
			}
			return append(jobs, pairJobs(b2, b3, budget, sel)...)
		})
	}
	wrap("C01", nil)
	wrap("C02", nil)
	wrap("C03", func(p []pairReq) bool {
		for _, r := range p {
			if r.Kind == "switch" {
				return true
			}
		}
		return false
	})
}

func init() {
	// C06 under concurrency: the last member, owning a non-persistent entity,
	// leaves while a newcomer joins: whoever ends up in the session must hold
	// the view a later newcomer is handed
	registerBlock("c06-lastleave-entity-vs-join", func() *Block {
		return &Block{
			Setup: func(x *Ctx) {
				x.conn("a", "b")
				x.join("a", "")
				a := x.C["a"]
				a.SendMsg(&hagallpb.EntityAddRequest{Type: hagallpb.MsgType_MSG_TYPE_ENTITY_ADD_REQUEST, Timestamp: x.W.NextTS(), RequestId: a.NextReqID()})
				a.SendMsg(&hagallpb.EntityAddRequest{Type: hagallpb.MsgType_MSG_TYPE_ENTITY_ADD_REQUEST, Timestamp: x.W.NextTS(), RequestId: a.NextReqID(), Persist: true})
				x.W.Run()
			},
			Fire: func(x *Ctx) {
				m, rid := joinReq(x.W, x.C["b"], x.J["a"].SessionID)
				x.Vars["rid"] = rid
				x.C["b"].SendMsg(m)
				x.C["a"].Close()
			},
			Check: func(x *Ctx) {
				ji := parseJoin(x.C["b"].All(), x.Vars["rid"].(uint32))
				if !ji.OK {
					return
				}
				x.J["b"] = ji
				x.conn("probe")
				pj := join(x.W, x.C["probe"], ji.SessionID)
				if !pj.OK {
					x.fail("view", "joiner-in-dead-session", "b was told it joined %s but a probe cannot join it: %v", ji.SessionID, pj.Code)
					return
				}
				pv, bv := s1.NewView(), s1.NewView()
				for _, r := range x.C["probe"].All() {
					pv.Apply(r, nil)
				}
				for _, r := range x.C["b"].All() {
					bv.Apply(r, nil)
				}
				delete(pv.PIDs, pj.ParticipantID)
				delete(bv.PIDs, pj.ParticipantID)
				mods := s1.Mods{}
				if have, want := bv.State(nil, mods), pv.State(nil, mods); have != want {
					class := "never-told"
					sv := stateFirstView(x, "b", nil)
					delete(sv.PIDs, pj.ParticipantID)
					if sv.State(nil, mods) == want {
						class = "state-overtaken-by-relay"
					}
					x.fail("view", "departure-vs-join:joiner-view-differs:"+class, "a (owner of one non-persistent and one persistent entity) left while b joined; b's view differs from what a newcomer is handed:\n   view : %s\n   probe: %s", have, want)
				}
			},
			Final: finalInvariants,
		}
	})
	add := func(id string, f func(tier string) []check.Job) {
		check.WrapPlanner(id, func(tier string, jobs []check.Job) []check.Job { return append(jobs, f(tier)...) })
	}
	bnd := func(tier string) (int, int) {
		if tier == "thorough" {
			return 2, 1500
		}
		return 1, 200
	}
	add("C05", func(tier string) []check.Job {
		b, bud := bnd(tier)
		return []check.Job{s2job("c10-join-join", b+1, bud), s2job("c10-eadd-eadd", b+1, bud), s2jobOpt("c10-join-join", 1, bud, false, true), s2jobOpt("c10-eadd-eadd", 1, bud, false, true)}
	})
	add("C06", func(tier string) []check.Job {
		b, bud := bnd(tier)
		jobs := []check.Job{s2job("c06-lastleave-entity-vs-join", b+1, bud)}
		for _, p := range pairList {
			for _, r := range p {
				if r.Kind == "leave" || r.Kind == "switch" {
					jobs = append(jobs, s2job(pairName(p...), b, bud))
					break
				}
			}
		}
		return jobs
	})
	add("C12", func(tier string) []check.Job {
		b, bud := bnd(tier)
		return []check.Job{s2job("c10-tadd-same", b+1, bud), s2job("c10-tadd-other", b+1, bud), s2job(pairName(pairReq{"a", "cadd"}, pairReq{"b", "cadd"}), b+1, bud),
			s2job(pairName(pairReq{"a", "cupd"}, pairReq{"b", "cdel"}), b+1, bud), s2job(pairName(pairReq{"a", "edel"}, pairReq{"b", "cupd"}), b+1, bud), s2job(pairName(pairReq{"a", "cdel"}, pairReq{"b", "cupd"}), b+1, bud)}
	})
	add("C13", func(tier string) []check.Job {
		b, bud := bnd(tier)
		return []check.Job{s2job(pairName(pairReq{"a", "cupd"}, pairReq{"c", "unsub"}), b+1, bud), s2job(pairName(pairReq{"a", "cdel"}, pairReq{"c", "unsub"}), b+1, bud),
			s2job(pairName(pairReq{"a", "cadd"}, pairReq{"c", "leave"}), b+1, bud), s2job(pairName(pairReq{"a", "cdel"}, pairReq{"c", "leave"}), b+1, bud), s2job(pairName(pairReq{"a", "cadd"}, pairReq{"c", "switch"}), b+1, bud),
			s2job(pairName(pairReq{"a", "cupd"}, pairReq{"b", "cdel"}), b+1, bud)}
	})
}

// A coalesced update (pose / component) is pending in a connection's
// scheduler, the session's frame tick fires, and the connection ends - all at
// once: the frame worker's flush of that connection against its teardown
// (leaveSession, stopFrameHandling, scheduler.Close). No goroutine may panic,
// nothing may be relayed after the departure was announced (C11: no pose of a
// deleted entity), the teardown completes.
func init() {
	for _, kind := range []string{"pose", "cupd"} {
		kind := kind
		for _, how := range []string{"close", "switch"} {
			how := how
			registerBlock("c11-pending-"+kind+"-tick-vs-"+how, func() *Block {
				return &Block{
					Cfg:   world.Config{Modules: []string{"vikja", "odal"}},
					Setup: baseB1,
					Fire: func(x *Ctx) {
						a := x.C["a"]
						ea, tid := x.Vars["ea"].(uint32), x.Vars["tid"].(uint32)
						ts := x.W.NextTS()
						x.Vars["ts"] = ts.Seconds
						if kind == "pose" {
							a.SendMsg(&hagallpb.EntityUpdatePose{Type: hagallpb.MsgType_MSG_TYPE_ENTITY_UPDATE_POSE, Timestamp: ts, EntityId: ea, Pose: &hagallpb.Pose{Px: 42}})
						} else {
							a.SendMsg(&hagallpb.EntityComponentUpdate{Type: hagallpb.MsgType_MSG_TYPE_ENTITY_COMPONENT_UPDATE, Timestamp: ts, EntityComponentTypeId: tid, EntityId: ea, Data: []byte("last")})
						}
						x.W.S.Advance(x.W.Cfg.FrameDuration)
						if how == "close" {
							a.Close()
						} else {
							m, _ := joinReq(x.W, a, "")
							a.SendMsg(m)
						}
					},
					Check: func(x *Ctx) {
						for i := 0; i < 2; i++ {
							x.W.Tick(x.W.Cfg.FrameDuration)
						}
						apid := x.J["a"].ParticipantID
						ea := x.Vars["ea"].(uint32)
						rt := int32(15)
						if kind == "cupd" {
							rt = 31
						}
						for _, n := range []string{"b", "c"} {
							gone, cnt := false, 0
							for _, r := range x.C[n].All() {
								switch m := r.Msg.(type) {
								case *hagallpb.EntityDeleteBroadcast:
									if m.EntityId == ea {
										gone = true
									}
								case *hagallpb.ParticipantLeaveBroadcast:
									if m.ParticipantId == apid {
										gone = true
									}
								}
								if r.Type == rt && s1.Canon(r).Origin == x.Vars["ts"].(int64) {
									cnt++
									if gone {
										x.fail("relay", kind+":relayed-after-departure", "%s was told that a's entity / a itself is gone and was then sent a's %s update", n, kind)
									}
								}
							}
							if cnt > 1 {
								x.fail("relay", kind+":relayed-twice", "a's %s update reached %s %d times", kind, n, cnt)
							}
						}
						delete(x.J, "a")
						// the session lives on with b and c; a newcomer is handed what they hold
						x.Vars["reqs"] = []*breq{}
						x.conn("probe")
						pj := join(x.W, x.C["probe"], x.J["b"].SessionID)
						if !pj.OK {
							x.fail("probe", "probe-cannot-join", "b and c are members but a probe is refused: %v", pj.Code)
							return
						}
						pv := s1.NewView()
						for _, r := range x.C["probe"].All() {
							pv.Apply(r, nil)
						}
						delete(pv.PIDs, pj.ParticipantID)
						mods := s1.Mods{Vikja: true, Odal: true}
						for _, n := range []string{"b", "c"} {
							v := finalView(x, n, nil)
							delete(v.PIDs, pj.ParticipantID)
							types := map[uint32]bool{}
							if n == "c" {
								types[x.Vars["tid"].(uint32)] = true
							}
							if have, want := v.State(types, mods), pv.State(types, mods); have != want {
								x.fail("view", "view-differs:"+n+":"+diffClass(have, want), "a left with an update pending at a frame tick; afterwards the view of %s differs from what a newcomer is handed:\n   view : %s\n   probe: %s", n, have, want)
							}
						}
					},
					Final: finalInvariants,
				}
			})
		}
	}
	names := []string{"c11-pending-pose-tick-vs-close", "c11-pending-pose-tick-vs-switch", "c11-pending-cupd-tick-vs-close", "c11-pending-cupd-tick-vs-switch"}
	for _, id := range []string{"C11", "C08", "C01", "C06"} {
		id := id
		check.WrapPlanner(id, func(tier string, jobs []check.Job) []check.Job {
			b, bud := 2, 200
			if tier == "thorough" {
				b, bud = 3, 1500
			}
			for _, n := range names {
				if id == "C08" {
					jobs = append(jobs, s2jobOpt(n, b, bud, true, false))
				} else {
					jobs = append(jobs, s2job(n, b, bud))
				}
			}
			return jobs
		})
	}
}
