package props

import (
	"bufio"
	"context"
	"crypto/hmac"
	"crypto/sha256"
	"crypto/sha512"
	"encoding/base64"
	"encoding/json"
	"fmt"
	"hash"
	"io"
	"net"
	"net/http"
	"net/http/httptest"
	"net/url"
	"os"
	"os/exec"
	"path/filepath"
	"sort"
	"strings"
	"sync"
	"sync/atomic"
	"time"

	hds "github.com/aukilabs/hagall-common/hdsclient"
	hagallhttp "github.com/aukilabs/hagall/http"
	"golang.org/x/net/websocket"

	"verif/check"
	"verif/explore"
	"verif/vrt"
)

// ---- C15: only valid token holders reach the relay or the smoke test -----------------

func b64(b []byte) string { return base64.RawURLEncoding.EncodeToString(b) }

func signJWT(alg string, header, payload map[string]any, secret string) string {
	hb, _ := json.Marshal(header)
	pb, _ := json.Marshal(payload)
	msg := b64(hb) + "." + b64(pb)
	var h func() hash.Hash
	switch alg {
	case "HS256":
		h = sha256.New
	case "HS384":
		h = sha512.New384
	case "HS512":
		h = sha512.New
	default:
		return msg + "."
	}
	m := hmac.New(h, []byte(secret))
	m.Write([]byte(msg))
	return msg + "." + b64(m.Sum(nil))
}

type verdict int

const (
	invalid verdict = iota
	valid
	dontcare
)

func (v verdict) String() string { return [...]string{"invalid", "valid", "either"}[v] }

// refVerify is the independent reference verifier (stdlib crypto only).
func refVerify(token, secret string, now time.Time) verdict {
	if secret == "" || token == "" {
		return invalid
	}
	parts := strings.Split(token, ".")
	if len(parts) != 3 {
		return invalid
	}
	hb, err1 := base64.RawURLEncoding.DecodeString(parts[0])
	pb, err2 := base64.RawURLEncoding.DecodeString(parts[1])
	sig, err3 := base64.RawURLEncoding.DecodeString(parts[2])
	if err1 != nil || err2 != nil || err3 != nil {
		return invalid
	}
	var hdr map[string]any
	var pl map[string]any
	if json.Unmarshal(hb, &hdr) != nil || json.Unmarshal(pb, &pl) != nil {
		return invalid
	}
	var h func() hash.Hash
	res := valid
	switch hdr["alg"] {
	case "HS256":
		h = sha256.New
	case "HS384":
		h, res = sha512.New384, dontcare // another HMAC with the right secret: the statement does not decide
	case "HS512":
		h, res = sha512.New, dontcare
	default:
		return invalid
	}
	m := hmac.New(h, []byte(secret))
	m.Write([]byte(parts[0] + "." + parts[1]))
	if !hmac.Equal(m.Sum(nil), sig) {
		return invalid
	}
	num := func(k string) (float64, bool) {
		f, ok := pl[k].(float64)
		return f, ok
	}
	n := float64(now.Unix())
	if exp, ok := num("exp"); ok {
		if exp < n-2 {
			return invalid
		}
		if exp <= n+2 {
			res = dontcare
		}
	} else {
		res = dontcare // no expiry at all
	}
	if iat, ok := num("iat"); ok {
		if iat > n+12 {
			return invalid
		}
		if iat > n-2 {
			res = dontcare // issued "now" or within the implementation's leeway
		}
	}
	if nbf, ok := num("nbf"); ok {
		if nbf > n+2 {
			return invalid
		}
		if nbf > n-2 {
			res = dontcare
		}
	}
	return res
}

type tokCase struct {
	Name  string
	Token string
}

// tokenAlphabet: one valid token and every mutation class of it.
func tokenAlphabet(cur, prev string, now time.Time) []tokCase {
	hdr := map[string]any{"alg": "HS256", "typ": "JWT"}
	pl := func(iat, exp int64) map[string]any {
		return map[string]any{"iss": "HDS", "iat": now.Unix() + iat, "exp": now.Unix() + exp, "jti": "j1", "app_key": "k"}
	}
	good := signJWT("HS256", hdr, pl(-60, 3600), cur)
	other := signJWT("HS256", hdr, map[string]any{"iss": "HDS", "iat": now.Unix() - 60, "exp": now.Unix() + 7200, "jti": "j2", "app_key": "other"}, cur)
	gp, op := strings.Split(good, "."), strings.Split(other, ".")
	flip := func(s string) string {
		if len(s) < 4 {
			return s + "A"
		}
		i := len(s) / 2
		c := byte('A')
		if s[i] == 'A' {
			c = 'B'
		}
		return s[:i] + string(c) + s[i+1:]
	}
	cs := []tokCase{{"valid", good}, {"valid-other-claims", other}}
	for i, seg := range []string{"header", "payload", "signature"} {
		mk := func(f func(string) string) string {
			p := append([]string{}, gp...)
			p[i] = f(p[i])
			return strings.Join(p, ".")
		}
		cs = append(cs,
			tokCase{seg + "-emptied", mk(func(string) string { return "" })},
			tokCase{seg + "-truncated", mk(func(s string) string { return s[:len(s)-1] })},
			tokCase{seg + "-one-char-changed", mk(flip)},
			tokCase{seg + "-from-another-token", mk(func(string) string { return op[i] })},
		)
	}
	for _, alg := range []string{"HS384", "HS512"} {
		cs = append(cs, tokCase{"alg-" + alg + "-right-secret", signJWT(alg, map[string]any{"alg": alg, "typ": "JWT"}, pl(-60, 3600), cur)},
			tokCase{"alg-" + alg + "-wrong-secret", signJWT(alg, map[string]any{"alg": alg, "typ": "JWT"}, pl(-60, 3600), "wrong")})
	}
	none := signJWT("none", map[string]any{"alg": "none", "typ": "JWT"}, pl(-60, 3600), "")
	cs = append(cs,
		tokCase{"alg-none-unsigned", none},
		tokCase{"alg-none-with-hs256-signature", strings.TrimSuffix(none, ".") + "." + gp[2]},
		tokCase{"alg-None-capitalised", signJWT("none", map[string]any{"alg": "None", "typ": "JWT"}, pl(-60, 3600), "")},
		tokCase{"alg-rs256-header-hmac-signature", func() string {
			t := signJWT("HS256", map[string]any{"alg": "RS256", "typ": "JWT"}, pl(-60, 3600), cur)
			return t
		}()},
		tokCase{"alg-missing", signJWT("HS256", map[string]any{"typ": "JWT"}, pl(-60, 3600), cur)},
		tokCase{"signed-with-previous-secret", signJWT("HS256", hdr, pl(-60, 3600), prev)},
		tokCase{"signed-with-empty-secret", signJWT("HS256", hdr, pl(-60, 3600), "")},
		tokCase{"signed-with-wrong-secret", signJWT("HS256", hdr, pl(-60, 3600), "wrong-secret")},
		tokCase{"signed-with-secret-prefix", signJWT("HS256", hdr, pl(-60, 3600), cur[:len(cur)/2])},
		tokCase{"expired-1h", signJWT("HS256", hdr, pl(-7200, -3600), cur)},
		tokCase{"expired-30s", signJWT("HS256", hdr, pl(-7200, -30), cur)},
		tokCase{"expires-now", signJWT("HS256", hdr, pl(-60, 0), cur)},
		tokCase{"no-expiry", signJWT("HS256", hdr, map[string]any{"iss": "HDS", "iat": now.Unix() - 60, "app_key": "k"}, cur)},
		tokCase{"issued-1h-in-future", signJWT("HS256", hdr, pl(3600, 7200), cur)},
		tokCase{"issued-5s-in-future", signJWT("HS256", hdr, pl(5, 7200), cur)},
		tokCase{"not-before-1h-in-future", signJWT("HS256", hdr, map[string]any{"iss": "HDS", "iat": now.Unix() - 60, "nbf": now.Unix() + 3600, "exp": now.Unix() + 7200}, cur)},
		tokCase{"expired-but-issued-in-future", signJWT("HS256", hdr, pl(5, -30), cur)},
		tokCase{"wrong-secret-issued-5s-in-future", signJWT("HS256", hdr, pl(5, 7200), "wrong")},
		tokCase{"garbage", "abc"},
		tokCase{"two-dots", "a.b.c"},
		tokCase{"empty-segments", ".."},
		tokCase{"valid-with-trailing-dot", good + "."},
		tokCase{"valid-with-leading-space", " " + good},
		tokCase{"four-segments", good + "." + gp[2]},
	)
	return cs
}

type carrier int

const (
	viaHeader carrier = iota
	viaQuery
	viaCookie
)

var carrierNames = []string{"header", "query", "cookie"}

type authReq struct {
	Path   string // "/" (websocket upgrade) or "/smoke-test"
	Tokens [3]string
	Use    [3]bool
}

// doAuthRequest sends one raw HTTP request; returns status code.
func doAuthRequest(addr string, r authReq) (int, error) {
	c, err := net.DialTimeout("tcp", addr, 10*time.Second)
	if err != nil {
		return 0, err
	}
	defer c.Close()
	c.SetDeadline(time.Now().Add(30 * time.Second))
	target := r.Path
	if r.Use[viaQuery] {
		target += "?access_token=" + url.QueryEscape(r.Tokens[viaQuery])
	}
	var sb strings.Builder
	fmt.Fprintf(&sb, "GET %s HTTP/1.1\r\nHost: %s\r\n", target, addr)
	if r.Path == "/" {
		sb.WriteString("Upgrade: websocket\r\nConnection: Upgrade\r\nSec-WebSocket-Key: dGhlIHNhbXBsZSBub25jZQ==\r\nSec-WebSocket-Version: 13\r\nOrigin: http://x\r\n")
	} else {
		sb.WriteString("Connection: close\r\n")
	}
	if r.Use[viaHeader] {
		fmt.Fprintf(&sb, "Authorization: Bearer %s\r\n", r.Tokens[viaHeader])
	}
	if r.Use[viaCookie] {
		fmt.Fprintf(&sb, "Cookie: access_token=%s\r\n", r.Tokens[viaCookie])
	}
	sb.WriteString("\r\n")
	if _, err := c.Write([]byte(sb.String())); err != nil {
		return 0, err
	}
	resp, err := http.ReadResponse(bufio.NewReader(c), nil)
	if err != nil {
		return 0, err
	}
	io.Copy(io.Discard, io.LimitReader(resp.Body, 1<<16))
	return resp.StatusCode, nil
}

type authTarget struct {
	addr    string
	entered *atomic.Int64 // inner handler entries (in-process target only)
	secret  func() string
	now     time.Time // one reference instant per job: tokens are byte-identical across server states
}

type authStats struct {
	requests int
	outcomes map[string]bool
	viol     map[string]check.Violation
}

func (st *authStats) fail(scn, oracle, detail, info string) {
	sig := oracle + "|" + detail
	if _, ok := st.viol[sig]; !ok {
		st.viol[sig] = check.Violation{Scenario: scn, Oracle: oracle, Detail: detail, Info: info}
	}
}

// exercise runs the token x carrier product against a target in its current
// secret state.
func exercise(scn string, tg *authTarget, state string, prev string, st *authStats, combos bool) {
	if tg.now.IsZero() {
		tg.now = time.Now()
	}
	now := tg.now
	cur := tg.secret()
	signWith := cur
	if signWith == "" {
		signWith = "secret-the-server-does-not-hold"
	}
	cases := tokenAlphabet(signWith, prev, now)
	one := func(path string, r authReq, desc string) {
		r.Path = path
		before := int64(0)
		if tg.entered != nil {
			before = tg.entered.Load()
		}
		code, err := doAuthRequest(tg.addr, r)
		st.requests++
		if err != nil {
			st.fail(scn, "transport", "request-failed", fmt.Sprintf("%s: %v", desc, err))
			return
		}
		// reference verdict over the carried tokens
		anyValid, anyDont, present := false, false, 0
		first := -1
		for i := 0; i < 3; i++ {
			if !r.Use[i] || strings.TrimSpace(r.Tokens[i]) == "" && i != int(viaHeader) {
				if r.Use[i] {
					present++
				}
				continue
			}
			present++
			if first < 0 && r.Tokens[i] != "" {
				first = i
			}
			switch refVerify(r.Tokens[i], cur, now) {
			case valid:
				anyValid = true
			case dontcare:
				anyDont = true
			}
		}
		// in-process the inner handler answers 101 / 200; in the real binary the
		// smoke-test handler, once entered, answers 400 to our body-less probe
		// (no smoke test is started): everything but 401/403 means "entered"
		admitted := code == 101 || code == 200
		if tg.entered == nil && path == "/smoke-test" {
			admitted = code != 401 && code != 403
		}
		enteredNow := tg.entered != nil && tg.entered.Load() > before
		if tg.entered != nil && admitted && !enteredNow {
			// the 101 / 200 is written before the inner handler's goroutine has
			// counted itself: wait for it (harness synchronisation, not an oracle)
			for dl := time.Now().Add(20 * time.Second); time.Now().Before(dl) && !enteredNow; time.Sleep(time.Millisecond) {
				enteredNow = tg.entered.Load() > before
			}
		}
		st.outcomes[fmt.Sprintf("%s/%s/%d", state, path, code)] = true
		if tg.entered != nil && enteredNow != admitted {
			st.fail(scn, "admission", "status-vs-handler-entry", fmt.Sprintf("%s state=%s: status %d but handler entered=%v", desc, state, code, enteredNow))
		}
		switch {
		case admitted && !anyValid && !anyDont:
			st.fail(scn, "admission", "admitted-without-valid-token:"+classOf(desc), fmt.Sprintf("%s (server state: %s): admitted with status %d although no carried token verifies against the current secret", desc, state, code))
		case !admitted && code != 401 && code != 403 && !(path == "/" && code == 400):
			st.fail(scn, "admission", "rejection-status", fmt.Sprintf("%s: rejected with unexpected status %d", desc, code))
		case !admitted && present == 1 && anyValid:
			st.fail(scn, "admission", "valid-token-rejected:"+classOf(desc), fmt.Sprintf("%s (server state: %s): a lone valid token was rejected with %d", desc, state, code))
		}
	}
	for _, path := range []string{"/", "/smoke-test"} {
		for _, tc := range cases {
			for cr := 0; cr < 3; cr++ {
				var r authReq
				r.Tokens[cr], r.Use[cr] = tc.Token, true
				one(path, r, fmt.Sprintf("%s via %s on %s", tc.Name, carrierNames[cr], path))
			}
		}
		one(path, authReq{}, "no token on "+path)
		if combos {
			good := cases[0].Token
			bad := signJWT("HS256", map[string]any{"alg": "HS256", "typ": "JWT"}, map[string]any{"exp": now.Unix() + 3600}, "wrong")
			for m := 0; m < 27; m++ {
				var r authReq
				desc := "combo"
				x := m
				for cr := 0; cr < 3; cr++ {
					switch x % 3 {
					case 1:
						r.Tokens[cr], r.Use[cr] = good, true
						desc += " " + carrierNames[cr] + "=valid"
					case 2:
						r.Tokens[cr], r.Use[cr] = bad, true
						desc += " " + carrierNames[cr] + "=invalid"
					}
					x /= 3
				}
				one(path, r, desc+" on "+path)
			}
		}
	}
}

func classOf(desc string) string {
	f := strings.Fields(desc)
	if len(f) > 0 {
		return f[0]
	}
	return ""
}

func init() {
	check.Register("auth-inproc", func(j *check.Job) *check.Result {
		res := &check.Result{Exhaustive: true, Extra: map[string]any{}}
		client := hds.NewClient(hds.WithHagallEndpoint("http://hagall.test"), hds.WithHDSEndpoint("http://127.0.0.1:1"))
		var entered atomic.Int64
		mux := http.NewServeMux()
		ctx := context.Background()
		mux.Handle("/", websocket.Server{
			Handshake: hagallhttp.VerifyAuthToken(ctx, client),
			Handler:   func(c *websocket.Conn) { entered.Add(1); c.Close() },
		})
		mux.HandleFunc("/smoke-test", hagallhttp.VerifyAuthTokenHandler(client, func(w http.ResponseWriter, r *http.Request) {
			entered.Add(1)
			w.WriteHeader(200)
		}))
		srv := httptest.NewServer(mux)
		defer srv.Close()
		tg := &authTarget{addr: strings.TrimPrefix(srv.URL, "http://"), entered: &entered, secret: client.Secret}
		st := &authStats{outcomes: map[string]bool{}, viol: map[string]check.Violation{}}
		// explicit-state machine over the server's secret: every event sequence <= 3
		events := []string{"register-A", "register-B", "unregister"}
		secrets := map[string]string{"register-A": "secret-AAAAAAAAAAAAAAAAAAAAAAAA", "register-B": "secret-BBBBBBBBBBBBBBBBBBBBBBBB", "unregister": ""}
		seqs := [][]string{{}}
		for d := 0; d < 3; d++ {
			var next [][]string
			for _, s := range seqs {
				if len(s) == d {
					for _, e := range events {
						next = append(next, append(append([]string{}, s...), e))
					}
				}
			}
			seqs = append(seqs, next...)
		}
		states := 0
		for _, seq := range seqs {
			client.SetServerData("", "")
			prev := "secret-never-issued"
			for _, e := range seq {
				if cur := client.Secret(); cur != "" {
					prev = cur
				}
				client.SetServerData("id", secrets[e])
			}
			states++
			exercise(j.Name, tg, "after["+strings.Join(seq, ",")+"]", prev, st, len(seq) <= 1)
		}
		res.States = states
		res.Executions = st.requests
		res.Transitions = st.requests
		res.Outcomes = len(st.outcomes)
		for _, v := range st.viol {
			res.Violations = append(res.Violations, v)
		}
		sort.Slice(res.Violations, func(a, b int) bool { return res.Violations[a].Detail < res.Violations[b].Detail })
		res.Samples = []any{map[string]any{"state": "after[register-A,register-B]", "request": "signed-with-previous-secret via cookie on /smoke-test", "expected": "rejected"}}
		res.Extra["token_classes"] = len(tokenAlphabet("s", "p", time.Now()))
		return res
	})
	check.Register("auth-conc", runAuthConc)
	check.Register("auth-binary", runAuthBinary)
	check.RegisterProp("C15", func(tier string) []check.Job {
		return []check.Job{
			{Kind: "auth-inproc", Name: "IN:auth-wrappers"},
			{Kind: "auth-binary", Name: "IN:auth-real-binary", BudgetS: 240},
			{Kind: "auth-conc", Name: "S2:auth-vs-reregistration", BudgetS: 300},
			{Kind: "auth-conc", Name: "S2:auth-vs-reregistration+race", BudgetS: 300, Race: true},
		}
	}, check.PropInfo{
		Rule:        "token alphabet = one valid token and every mutation class (each segment emptied / truncated / one character changed / taken from another token; alg HS256/384/512/none/None/RS256-header/missing; signed with the current, previous, empty, wrong or truncated secret; exp past/now/future/absent; iat and nbf in the future) x three carriers singly and in all 27 absent/valid/invalid combinations x an explicit-state machine over the server's secret (every sequence <= 3 of register-A / register-B / unregister), on (1) the two exported wrappers mounted as cmd/main.go mounts them around a harness-owned inner handler, in-process, and (2) the real binary built from /repo/cmd, registered by a harness-owned discovery service on loopback (unregistered -> secret 1 -> lapsed -> secret 2), and (3) S2: one or two requests handled while the discovery client re-registers (secret A -> none -> B, or none -> A) in another thread, or while a second request with a valid token is checked by the same wrapper, every interleaving at the granularity of the lock around the secret, in the plain and in the -race build (the wrappers are built once and shared, as cmd/main.go does) (hagall-common/hdsclient instrumented): admitted => the token verifies under a non-empty secret the server held at some instant of the call. Oracle: an independent verifier (crypto/hmac, base64, JSON); inner handler entered => a carried token verifies under the current secret and is within its times; a lone valid token is admitted; a rejection is 401/403.",
		Assumptions: []string{"loopback TCP only", "cases the statement leaves open are accepted either way: HS384/HS512 with the right secret, exp/iat/nbf within 2 s of now, iat within the 10 s leeway, a token without exp", "with several carriers present: admitted => some carried token is valid; all invalid => rejected"},
	})
}

// ---- target 2: the real binary --------------------------------------------------------

type fakeHDS struct {
	mu       sync.Mutex
	secret   string // what the binary currently holds, as far as the harness knows
	hold     bool   // withhold the registration call-back
	pending  chan struct{}
	endpoint string
	n        int
	log      []string
}

func (f *fakeHDS) ServeHTTP(w http.ResponseWriter, r *http.Request) {
	if r.URL.Path != "/servers" || r.Method != http.MethodPost {
		w.WriteHeader(200)
		return
	}
	var in struct {
		Endpoint string `json:"endpoint"`
		State    string `json:"state"`
	}
	b, _ := io.ReadAll(r.Body)
	json.Unmarshal(b, &in)
	f.mu.Lock()
	f.secret = "" // the binary has dropped its secret before re-registering
	hold := f.hold
	f.n++
	n := f.n
	f.mu.Unlock()
	select {
	case f.pending <- struct{}{}:
	default:
	}
	if !hold {
		f.callback(in.State, n)
	}
	w.WriteHeader(200)
}

func (f *fakeHDS) callback(state string, n int) {
	secret := fmt.Sprintf("binary-secret-%d-%d", n, time.Now().UnixNano())
	req, _ := http.NewRequest(http.MethodPost, f.endpoint+"/registrations", nil)
	req.Header.Set("Hagall-Registration-State", state)
	req.Header.Set("Hagall-Id", "srv1")
	req.Header.Set("Hagall-Jwt-Secret", secret)
	resp, err := http.DefaultClient.Do(req)
	if err == nil {
		resp.Body.Close()
		if resp.StatusCode == 200 {
			f.mu.Lock()
			f.secret = secret
			f.mu.Unlock()
		}
	}
}

func (f *fakeHDS) Secret() string {
	f.mu.Lock()
	defer f.mu.Unlock()
	return f.secret
}

func freePort() int {
	l, err := net.Listen("tcp", "127.0.0.1:0")
	if err != nil {
		return 0
	}
	defer l.Close()
	return l.Addr().(*net.TCPAddr).Port
}

func runAuthBinary(j *check.Job) *check.Result {
	res := &check.Result{Exhaustive: true, Extra: map[string]any{}}
	notRun := func(why string) *check.Result {
		// the environment, not the property, is at fault: no alarm
		res.Exhaustive = false
		res.CapHit = "real-binary target not exercised: " + why
		res.States, res.Transitions, res.Executions = 1, 1, 0
		res.Samples = []any{"real binary target skipped: " + why}
		return res
	}
	exe, _ := os.Executable()
	build := filepath.Dir(exe)
	bin := filepath.Join(build, "hagall-cmd")
	cmd := exec.Command("go", "build", "-o", bin, "./cmd")
	cmd.Dir = "/repo"
	cmd.Env = append(os.Environ(), "GOFLAGS=-mod=mod", "GOPROXY=off", "GOSUMDB=off", "GOTOOLCHAIN=local")
	if out, err := cmd.CombinedOutput(); err != nil {
		res.EngineError = fmt.Sprintf("cannot build /repo/cmd: %v\n%s", err, out)
		return res
	}
	port, admin := freePort(), freePort()
	if port == 0 || admin == 0 {
		return notRun("no free loopback port")
	}
	endpoint := fmt.Sprintf("http://127.0.0.1:%d", port)
	f := &fakeHDS{endpoint: endpoint, pending: make(chan struct{}, 16), hold: true}
	hsrv := httptest.NewServer(f)
	defer hsrv.Close()
	srv := exec.Command(bin,
		"--addr", fmt.Sprintf("127.0.0.1:%d", port), "--admin-addr", fmt.Sprintf("127.0.0.1:%d", admin),
		"--public-endpoint", endpoint, "--private-key", "0x4c0883a69102937d6231471b5dbb6204fe5129617082792ae468d01a3f362318",
		"--log-level", "error")
	srv.Env = append(os.Environ(),
		"HAGALL_HDS_ENDPOINT="+hsrv.URL, "HAGALL_HDS_REGISTRATION_INTERVAL=300ms", "HAGALL_HDS_HEALTHCHECK_TTL=3s", "HAGALL_HDS_REGISTRATION_RETRIES=1000",
		"HAGALL_EVENTS_ENDPOINT=", "HAGALL_CLOCK_CHECKER_INITIAL_DELAY=24h", "HAGALL_NCS_ENDPOINT=http://127.0.0.1:1")
	var stderr strings.Builder
	srv.Stderr = &stderr
	srv.Stdout = io.Discard
	if err := srv.Start(); err != nil {
		return notRun("cannot start the binary: " + err.Error())
	}
	defer func() {
		srv.Process.Kill()
		srv.Wait()
	}()
	addr := fmt.Sprintf("127.0.0.1:%d", port)
	// wait until it listens
	up := false
	for i := 0; i < 300; i++ {
		if c, err := net.DialTimeout("tcp", addr, time.Second); err == nil {
			c.Close()
			up = true
			break
		}
		time.Sleep(100 * time.Millisecond)
	}
	if !up {
		return notRun("the binary did not start listening within 30 s: " + firstLine(stderr.String()))
	}
	tg := &authTarget{addr: addr, secret: f.Secret}
	st := &authStats{outcomes: map[string]bool{}, viol: map[string]check.Violation{}}
	waitPost := func() bool {
		select {
		case <-f.pending:
			return true
		case <-time.After(40 * time.Second):
			return false
		}
	}
	waitSecret := func() bool {
		for i := 0; i < 400; i++ {
			if f.Secret() != "" {
				return true
			}
			time.Sleep(100 * time.Millisecond)
		}
		return false
	}
	// state 1: not yet registered (the call-back is withheld)
	if !waitPost() {
		return notRun("the binary never contacted the discovery service")
	}
	exercise(j.Name, tg, "binary:unregistered", "secret-never-issued", st, true)
	// state 2: registered with secret 1
	f.mu.Lock()
	f.hold = false
	f.mu.Unlock()
	if !waitPost() || !waitSecret() {
		return notRun("registration call-back was not accepted")
	}
	s1 := f.Secret()
	exercise(j.Name, tg, "binary:secret-1", "secret-never-issued", st, true)
	// state 3: registration lapses (no health check): the binary drops its secret and re-registers; call-back withheld
	f.mu.Lock()
	f.hold = true
	f.mu.Unlock()
	lapsed := false
	for i := 0; i < 3; i++ {
		if !waitPost() {
			break
		}
		if f.Secret() == "" {
			lapsed = true
			break
		}
	}
	if lapsed {
		exercise(j.Name, tg, "binary:lapsed", s1, st, false)
		// state 4: secret 2
		f.mu.Lock()
		f.hold = false
		f.mu.Unlock()
		if waitPost() && waitSecret() {
			exercise(j.Name, tg, "binary:secret-2", s1, st, true)
		} else {
			res.Exhaustive = false
			res.CapHit = "second registration not observed"
		}
	} else {
		res.Exhaustive = false
		res.CapHit = "registration lapse not observed within the budget"
	}
	res.States = 4
	res.Executions = st.requests
	res.Transitions = st.requests
	res.Outcomes = len(st.outcomes)
	for _, v := range st.viol {
		res.Violations = append(res.Violations, v)
	}
	sort.Slice(res.Violations, func(a, b int) bool { return res.Violations[a].Detail < res.Violations[b].Detail })
	res.Samples = []any{map[string]any{"state": "binary:lapsed", "request": "valid-for-secret-1 via header on /", "expected": "rejected"}}
	return res
}

// ---- target 3: the wrappers against a concurrent re-registration (S2) -----------------

func runAuthConc(j *check.Job) *check.Result {
	res := &check.Result{Exhaustive: true, Extra: map[string]any{}, Bound: 3}
	now := time.Now()
	const secA, secB = "secret-AAAAAAAAAAAAAAAAAAAAAAAA", "secret-BBBBBBBBBBBBBBBBBBBBBBBB"
	hdr := map[string]any{"alg": "HS256", "typ": "JWT"}
	pl := map[string]any{"iss": "HDS", "iat": now.Unix() - 60, "exp": now.Unix() + 3600, "jti": "j1", "app_key": "k"}
	tokens := []tokCase{
		{"valid-under-A", signJWT("HS256", hdr, pl, secA)},
		{"valid-under-B", signJWT("HS256", hdr, pl, secB)},
		{"signed-with-empty-key", signJWT("HS256", hdr, pl, "")},
		{"signed-with-wrong-secret", signJWT("HS256", hdr, pl, "wrong")},
	}
	type scen struct {
		name    string
		initial string
		sets    []string // secrets installed one after the other by the registration thread ("" = withdrawn)
	}
	scens := []scen{
		{"A->none->B", secA, []string{"", secB}},
		{"none->A", "", []string{secA}},
		{"A->none", secA, []string{""}},
		{"A, a second request with a valid token", secA, nil},
	}
	rw := newRaceWatch()
	raceSeen := map[string]bool{}
	var deadline time.Time
	if j.BudgetS > 0 {
		deadline = time.Now().Add(time.Duration(j.BudgetS) * time.Second)
	}
	seen := map[string]bool{}
	outcomes := map[string]bool{}
	for _, sc := range scens {
		for _, t1 := range tokens {
			for _, entry := range []string{"handshake", "smoke-test"} {
				sc, t1, entry := sc, t1, entry
				run := func(ch vrt.Chooser) explore.Outcome {
					client := hds.NewClient(hds.WithHagallEndpoint("http://hagall.test"), hds.WithHDSEndpoint("http://127.0.0.1:1"))
					client.SetServerData("id", sc.initial)
					held := []string{sc.initial}
					var viol []explore.Violation
					admitted, admitted2 := false, false
					// The wrappers are built once, as cmd/main.go does, and shared by all requests.
					// They are built before the scheduler exists: a background worker a wrapper may
					// start (a cache sweeper on a ticker, ...) is an ordinary goroutine outside the
					// exploration, ended through this context afterwards.
					wctx, wcancel := context.WithCancel(context.Background())
					handshake := hagallhttp.VerifyAuthToken(wctx, client)
					s := vrt.NewSched(ch)
					vrt.ResetClasses()
					vrt.S = s
					var enteredBy [2]bool // which request reached the inner handler (marked by a header of the harness)
					middleware := hagallhttp.VerifyAuthTokenHandler(client, func(_ http.ResponseWriter, r *http.Request) {
						if r.Header.Get("X-Harness-Request") == "2" {
							enteredBy[1] = true
						} else {
							enteredBy[0] = true
						}
					})
					if sc.sets == nil {
						s.Spawn("request-2", func() {
							req := httptest.NewRequest("GET", "http://hagall.test/", nil)
							req.Header.Set("Authorization", "Bearer "+tokens[0].Token)
							if entry == "handshake" {
								admitted2 = handshake(nil, req) == nil
							} else {
								req.Header.Set("X-Harness-Request", "2")
								middleware(httptest.NewRecorder(), req)
								admitted2 = enteredBy[1]
							}
						})
					}
					s.Spawn("registration", func() {
						for _, sec := range sc.sets {
							id := "id"
							if sec == "" {
								id = ""
							}
							client.SetServerData(id, sec)
						}
					})
					s.Spawn("request", func() {
						req := httptest.NewRequest("GET", "http://hagall.test/", nil)
						req.Header.Set("Authorization", "Bearer "+t1.Token)
						if entry == "handshake" {
							admitted = handshake(nil, req) == nil
						} else {
							req.Header.Set("X-Harness-Request", "1")
							middleware(httptest.NewRecorder(), req)
							admitted = enteredBy[0]
						}
					})
					held = append(held, sc.sets...)
					s.RunQuiescent()
					if st := stuck(s); len(st) > 0 {
						viol = append(viol, explore.Violation{Oracle: "deadlock", Detail: "auth", Info: fmt.Sprint(st)})
					}
					s.Abort() // whatever is still parked is unwound
					s.Join()
					vrt.S = nil
					wcancel()
					ok := false
					for _, sec := range held {
						if v := refVerify(t1.Token, sec, now); v == valid || v == dontcare {
							ok = true
						}
					}
					if sc.sets == nil && !admitted2 {
						viol = append(viol, explore.Violation{Oracle: "admission", Detail: "valid-token-rejected-next-to-another-request", Info: fmt.Sprintf("a request with a valid token on %s was refused while a request carrying %s was being checked by the same wrapper", entry, t1.Name)})
					}
					for _, r := range rw.fresh() {
						if !raceSeen[r.Sig] {
							raceSeen[r.Sig] = true
							viol = append(viol, explore.Violation{Oracle: "race", Detail: r.Sig, Info: "unsynchronised conflicting accesses between two requests passing the token check (Go race detector, happens-before):\n" + r.Text})
						}
					}
					if admitted && !ok {
						viol = append(viol, explore.Violation{Oracle: "admission", Detail: "admitted-during-reregistration:" + t1.Name, Info: fmt.Sprintf("%s on %s while the server's secret goes %s: admitted although the token verifies under no secret the server held", t1.Name, entry, sc.name)})
					}
					return explore.Outcome{Points: s.Points, Steps: s.Steps, Violations: viol, Key: fmt.Sprint(admitted)}
				}
				st := explore.Explore(run, explore.Config{Bound: 3, Deadline: deadline})
				res.Executions += st.Executions
				res.States += st.Executions
				res.Transitions += st.Points + st.Executions
				res.Steps += st.Steps
				if !st.Exhaustive {
					res.Exhaustive, res.CapHit = false, st.CapHit
				}
				for k := range st.Outcomes {
					outcomes[sc.name+t1.Name+entry+k] = true
				}
				for _, f := range st.Found {
					if !seen[f.Oracle+f.Detail] {
						seen[f.Oracle+f.Detail] = true
						res.Violations = append(res.Violations, check.Violation{Scenario: j.Name, Oracle: f.Oracle, Detail: f.Detail, Info: f.Info, Replay: &check.Replay{Choices: trimZeros(f.Prefix)}})
					}
				}
			}
		}
	}
	res.Outcomes = len(outcomes)
	res.Samples = []any{map[string]any{"secret": "A -> none -> B", "token": "signed-with-empty-key", "entry": "handshake"}}
	return res
}
