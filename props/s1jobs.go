package props

import (
	"encoding/json"
	"fmt"
	"os"
	"os/exec"
	"path/filepath"
	"sort"
	"strings"
	"sync"
	"time"

	"verif/check"
	"verif/s1"
)

// S1Params: BFS over a family.
type S1Params struct {
	Family  string   `json:"family"`
	Depth   int      `json:"depth"`
	Flags   []string `json:"flags,omitempty"`
	Workers int      `json:"workers,omitempty"`
	// Tags: only violations tagged with one of these property ids count.
	Tags []string `json:"tags,omitempty"`
	// MaxStates caps the number of states expanded (0 = none).
	MaxStates int `json:"max_states,omitempty"`
}

type chunkParams struct {
	Family string   `json:"family"`
	Flags  []string `json:"flags,omitempty"`
	File   string   `json:"file"`
}

func init() {
	check.Register("s1", runS1Job)
	check.Register("s1chunk", runS1Chunk)
}

func runS1Chunk(j *check.Job) *check.Result {
	var p chunkParams
	json.Unmarshal(j.Params, &p)
	f := s1.Families[p.Family]
	b, err := os.ReadFile(p.File)
	if err != nil {
		return &check.Result{EngineError: err.Error()}
	}
	var hists [][]s1.Ev
	json.Unmarshal(b, &hists)
	out := make([]s1.HistResult, len(hists))
	for i, h := range hists {
		out[i] = s1.RunHistory(f, h, p.Flags, false)
	}
	ob, _ := json.Marshal(out)
	os.WriteFile(p.File+".out", ob, 0o644)
	return &check.Result{Exhaustive: true, Executions: len(hists)}
}

func tagged(v s1.Viol, tags []string) bool {
	if len(tags) == 0 {
		return true
	}
	for _, t := range v.Tags {
		for _, w := range tags {
			if t == w {
				return true
			}
		}
	}
	return false
}

func histString(h []s1.Ev) string {
	var parts []string
	for _, e := range h {
		parts = append(parts, e.String())
	}
	return strings.Join(parts, " ")
}

func runS1Job(j *check.Job) *check.Result {
	var p S1Params
	json.Unmarshal(j.Params, &p)
	f, ok := s1.Families[p.Family]
	if !ok {
		return &check.Result{EngineError: "unknown family " + p.Family}
	}
	res := &check.Result{Extra: map[string]any{"family": p.Family, "alphabet": f.Doc, "depth": p.Depth}}
	if j.Replay != nil {
		var h []s1.Ev
		json.Unmarshal(j.Replay.History, &h)
		hr := s1.RunHistory(f, h, p.Flags, true)
		for _, l := range hr.Trace {
			fmt.Println("  ", l)
		}
		for _, v := range hr.Viols {
			fmt.Printf("   !! %s %s: %s\n", v.Oracle, v.Detail, v.Info)
			if tagged(v, p.Tags) {
				res.Violations = append(res.Violations, check.Violation{Scenario: j.Name, Oracle: v.Oracle, Detail: v.Detail, Info: v.Info})
			}
		}
		res.Executions, res.Exhaustive = 1, true
		return res
	}
	workers := p.Workers
	if workers <= 0 {
		workers = 8
	}
	exe, _ := os.Executable()
	tmp := filepath.Join(filepath.Dir(exe), "tmp")
	os.MkdirAll(tmp, 0o755)
	var deadline time.Time
	if j.BudgetS > 0 {
		deadline = time.Now().Add(time.Duration(j.BudgetS) * time.Second)
	}
	// determinism self-check on the root
	r1 := s1.RunHistory(f, nil, p.Flags, false)
	r2 := s1.RunHistory(f, nil, p.Flags, false)
	if r1.Key != r2.Key || r1.Steps != r2.Steps {
		res.EngineError = "nondeterminism: the root history differs between two runs"
		return res
	}
	seen := map[string]bool{r1.Key: true}
	res.States, res.Transitions, res.Executions = 1, 1, 2
	res.Steps = r1.Steps + r2.Steps
	res.Exhaustive = true
	viols := map[string]check.Violation{}
	addViol := func(h []s1.Ev, hr *s1.HistResult) bool {
		bad := false
		for _, v := range hr.Viols {
			if !tagged(v, p.Tags) {
				continue
			}
			bad = true
			sig := v.Oracle + "|" + v.Detail
			if _, dup := viols[sig]; !dup {
				hb, _ := json.Marshal(h)
				viols[sig] = check.Violation{Scenario: j.Name, Oracle: v.Oracle, Detail: v.Detail, Info: v.Info + "\n   history: " + histString(h), Replay: &check.Replay{History: hb}}
			}
		}
		return bad || len(hr.Viols) > 0
	}
	type node struct {
		hist    []s1.Ev
		enabled []s1.Ev
	}
	frontier := []node{}
	if !addViol(nil, &r1) {
		frontier = append(frontier, node{nil, r1.Enabled})
	}
	var samples []any
	outcomes := map[string]bool{}
	for depth := 1; depth <= p.Depth && len(frontier) > 0; depth++ {
		var hists [][]s1.Ev
		for _, n := range frontier {
			for _, e := range n.enabled {
				h := append(append([]s1.Ev{}, n.hist...), e)
				hists = append(hists, h)
			}
		}
		if p.MaxStates > 0 && res.Transitions+len(hists) > p.MaxStates {
			res.Exhaustive = false
			res.CapHit = fmt.Sprintf("transition cap %d reached at depth %d (depth %d completed)", p.MaxStates, depth, depth-1)
			break
		}
		if !deadline.IsZero() && time.Now().After(deadline) {
			res.Exhaustive = false
			res.CapHit = fmt.Sprintf("time budget reached before depth %d (depth %d completed)", depth, depth-1)
			break
		}
		// split into chunks
		nch := workers
		if len(hists) < nch*4 {
			nch = (len(hists) + 3) / 4
		}
		results := make([][]s1.HistResult, nch)
		errs := make([]string, nch)
		var wg sync.WaitGroup
		for ci := 0; ci < nch; ci++ {
			lo, hi := ci*len(hists)/nch, (ci+1)*len(hists)/nch
			file := filepath.Join(tmp, fmt.Sprintf("s1-%d-%s-%d-%d.json", os.Getpid(), p.Family, depth, ci))
			hb, _ := json.Marshal(hists[lo:hi])
			os.WriteFile(file, hb, 0o644)
			wg.Add(1)
			go func(ci int, file string) {
				defer wg.Done()
				defer os.Remove(file)
				defer os.Remove(file + ".out")
				cp, _ := json.Marshal(chunkParams{Family: p.Family, Flags: p.Flags, File: file})
				cj, _ := json.Marshal(check.Job{Prop: j.Prop, Kind: "s1chunk", Name: j.Name, Params: cp})
				cmd := exec.Command(exe, "-job", string(cj))
				cmd.Env = append(os.Environ(), "GOMAXPROCS=2")
				out, err := cmd.CombinedOutput()
				ob, rerr := os.ReadFile(file + ".out")
				if err != nil || rerr != nil {
					tail := string(out)
					if len(tail) > 3000 {
						tail = tail[len(tail)-3000:]
					}
					errs[ci] = fmt.Sprintf("chunk worker failed: %v %v\n%s", err, rerr, tail)
					return
				}
				json.Unmarshal(ob, &results[ci])
			}(ci, file)
		}
		wg.Wait()
		for _, e := range errs {
			if e != "" {
				res.EngineError = e
				return res
			}
		}
		var next []node
		k := 0
		for ci := 0; ci < nch; ci++ {
			for i := range results[ci] {
				hr := &results[ci][i]
				h := hists[k]
				k++
				res.Transitions++
				res.Executions++
				res.Steps += hr.Steps
				if hr.HitCap {
					res.Exhaustive = false
					res.CapHit = "step horizon reached in an execution"
				}
				if len(samples) < 3 && len(h) == depth && i == len(results[ci])/2 {
					samples = append(samples, map[string]any{"history": histString(append(append([]s1.Ev{}, f.Setup...), h...)), "reached_state": hr.Key})
				}
				if addViol(h, hr) {
					continue // violating states are reported, not expanded
				}
				outcomes[hr.Key] = true
				if seen[hr.Key] {
					continue
				}
				seen[hr.Key] = true
				res.States++
				next = append(next, node{h, hr.Enabled})
			}
		}
		res.MaxDepth = depth
		frontier = next
	}
	res.Outcomes = len(seen)
	var sigs []string
	for s := range viols {
		sigs = append(sigs, s)
	}
	sort.Strings(sigs)
	for _, s := range sigs {
		res.Violations = append(res.Violations, viols[s])
	}
	res.Samples = samples
	if len(res.Samples) == 0 {
		res.Samples = []any{map[string]any{"history": histString(f.Setup), "reached_state": r1.Key}}
	}
	return res
}

func s1job(family string, depth int, tags []string, workers, budget int) check.Job {
	p, _ := json.Marshal(S1Params{Family: family, Depth: depth, Tags: tags, Workers: workers})
	return check.Job{Kind: "s1", Name: "S1:" + family, Params: p, BudgetS: budget}
}
