package props

import (
	"encoding/json"
	"fmt"
	"time"

	"github.com/aukilabs/hagall-common/messages/hagallpb"

	"verif/check"
	"verif/explore"
	"verif/s1"
	"verif/vrt"
	"verif/world"
)

// ---- back-pressure histories: a member stops reading, traffic piles up in its
// send queue, it issues requests of its own meanwhile, then reads again --------------
//
// The histories are sequential (environment actions at quiescence). The server
// may delay whatever it likes while the member does not read; once it reads
// again everything it is owed arrives: every relay once and in order, one
// answer per request, and its replica equals what a newcomer is handed.

// floodCustoms makes `from` relay n numbered custom messages.
func floodCustoms(x *Ctx, from string, n int) {
	for i := 0; i < n; i++ {
		x.C[from].SendMsg(&hagallpb.CustomMessage{Type: hagallpb.MsgType_MSG_TYPE_CUSTOM_MESSAGE, Timestamp: x.W.NextTS(), Body: []byte(fmt.Sprintf("x%d", i))})
	}
	x.W.Run()
}

// customsInOrder: who received the n numbered customs, each once, in order.
func customsInOrder(x *Ctx, who string, n int, why string) {
	next, extra := 0, 0
	for _, m := range x.C[who].All() {
		if cm, ok := m.Msg.(*hagallpb.CustomMessageBroadcast); ok {
			if string(cm.Body) == fmt.Sprintf("x%d", next) {
				next++
			} else {
				extra++
			}
		}
	}
	if next != n || extra != 0 {
		x.fail("relay", fmt.Sprintf("custom:lost-or-reordered-under-back-pressure:%d-of-%d", next, n), "%s: %s received %d of %d custom messages in order (%d out of order or repeated)", why, who, next, n, extra)
	}
}

func sequentially(x *Ctx, f func()) {
	s := x.W.S
	old := s.NoPreempt
	s.NoPreempt = true
	f()
	s.NoPreempt = old
}

func init() {
	mods := world.Config{Modules: []string{"vikja", "odal"}, ReceiptCap: 8}
	// (1) state changes and own requests while the queue is full
	registerBlock("bp-state-and-requests", func() *Block {
		var built []*breq
		return &Block{Cfg: mods, Setup: baseB1,
			Fire: func(x *Ctx) {
				sequentially(x, func() {
					c := x.C["c"]
					c.Pipe.SetStalled(true)
					floodCustoms(x, "a", 513) // one held by the blocked writer, 512 queued: the queue is full
					send := func(pr pairReq) {
						q := buildReq(x, pr)
						built = append(built, q)
						x.C[pr.Who].SendMsg(q.msg)
						x.W.Run()
						if q.tick {
							x.W.S.Advance(x.W.Cfg.FrameDuration)
							x.W.Run()
						}
					}
					// the pose relay is the first to find the queue full (the frame worker
					// waits, or - wrongly - drops it), then the other classes
					send(pairReq{"a", "pose"})
					send(pairReq{"a", "cupd"})
					send(pairReq{"a", "eadd"})
					send(pairReq{"a", "action"})
					// the slow member's own requests
					rid := c.NextReqID()
					x.Vars["ping"] = rid
					c.SendMsg(&hagallpb.Request{Type: hagallpb.MsgType_MSG_TYPE_PING_REQUEST, Timestamp: x.W.NextTS(), RequestId: rid})
					x.W.Run()
					send(pairReq{"c", "eadd"})
					t := tripleAlphabet()[0]
					rrid := c.NextReqID()
					x.Vars["receipt"] = rrid
					c.SendMsg(&hagallpb.ReceiptRequest{Type: hagallpb.MsgType_MSG_TYPE_RECEIPT_REQUEST, Timestamp: x.W.NextTS(), RequestId: rrid, Receipt: t.Receipt, Hash: t.Hash, Signature: t.Sig})
					x.W.Run()
					c.Pipe.SetStalled(false)
					x.W.Run()
				})
			},
			Check: func(x *Ctx) {
				customsInOrder(x, "c", 513, "c stopped reading while a relayed 513 custom messages, a changed state (entity add, pose, action, component update) and c sent a ping and an entity add, then c read again")
				customsInOrder(x, "b", 513, "b kept reading throughout")
				n := 0
				for _, r := range x.C["c"].All() {
					if r.Type == 39 && requestID(r.Msg) == x.Vars["ping"].(uint32) {
						n++
					}
				}
				if n != 1 {
					x.fail("answer-count", "ping:answers-under-back-pressure", "c's ping, sent while its send queue was full, got %d answers after c read again", n)
				}
				if rs := respFor(x.C["c"].All(), x.Vars["receipt"].(uint32)); len(rs) != 1 {
					x.fail("answer", "receipt:answers-under-back-pressure", "c's well-formed receipt, submitted while its send queue was full, got %d answers after c read again", len(rs))
				}
				pairOracles(x, built)
			},
			Final: finalInvariants}
	})
	// (2) a refused join (and a lookup of an unknown id) with relays still queued
	for _, target := range []string{"same", "unknown"} {
		target := target
		registerBlock("bp-refused-join-"+target, func() *Block {
			return &Block{Cfg: mods, Setup: baseB1,
				Fire: func(x *Ctx) {
					sequentially(x, func() {
						c := x.C["c"]
						c.Pipe.SetStalled(true)
						floodCustoms(x, "a", 3)
						sid := x.J["a"].SessionID
						if target == "unknown" {
							sid = "srvx3f"
						}
						m, rid := joinReq(x.W, c, sid)
						x.Vars["rid"] = rid
						c.SendMsg(m)
						x.W.Run()
						floodCustoms2(x, "a", 3, 2)
						c.Pipe.SetStalled(false)
						x.W.Run()
					})
				},
				Check: func(x *Ctx) {
					ji := parseJoin(x.C["c"].All(), x.Vars["rid"].(uint32))
					if ji.Answers != 1 || ji.OK {
						x.fail("answer", "join:refusal-under-back-pressure", "c's join of %s session (to be refused) got %d answers, accepted=%v", target, ji.Answers, ji.OK)
					}
					customsInOrder(x, "c", 5, "c stopped reading, 3 custom messages were relayed to it, its join request was refused (it stays a member), 2 more were relayed, then c read again")
					pairOracles(x, nil)
				},
				Final: finalInvariants}
		})
	}
	// (3) an unsubscribe behind notifications that are still queued
	registerBlock("bp-unsubscribe-behind-notifications", func() *Block {
		return &Block{Cfg: mods, Setup: baseB1,
			Fire: func(x *Ctx) {
				sequentially(x, func() {
					c := x.C["c"]
					tid, ea := x.Vars["tid"].(uint32), x.Vars["ea"].(uint32)
					c.Pipe.SetStalled(true)
					for i := 0; i < 3; i++ {
						x.C["a"].SendMsg(&hagallpb.EntityComponentUpdate{Type: hagallpb.MsgType_MSG_TYPE_ENTITY_COMPONENT_UPDATE, Timestamp: x.W.NextTS(), EntityComponentTypeId: tid, EntityId: ea, Data: []byte(fmt.Sprintf("n%d", i))})
						x.W.Run()
						x.W.S.Advance(x.W.Cfg.FrameDuration)
						x.W.Run()
					}
					rid := c.NextReqID()
					x.Vars["rid"] = rid
					c.SendMsg(&hagallpb.EntityComponentTypeUnsubscribeRequest{Type: hagallpb.MsgType_MSG_TYPE_ENTITY_COMPONENT_TYPE_UNSUBSCRIBE_REQUEST, Timestamp: x.W.NextTS(), RequestId: rid, EntityComponentTypeId: tid})
					x.W.Run()
					c.Pipe.SetStalled(false)
					x.W.Run()
				})
			},
			Check: func(x *Ctx) {
				after, next := false, 0
				for _, r := range x.C["c"].All() {
					if r.Type == 37 && requestID(r.Msg) == x.Vars["rid"].(uint32) {
						after = true
						continue
					}
					if m, ok := r.Msg.(*hagallpb.EntityComponentUpdateBroadcast); ok {
						if after {
							x.fail("relay", "cupd:update-after-unsubscribe", "c was sent a component update notification (%q) after the answer to its unsubscribe (the notifications were queued before it while c did not read)", m.EntityComponent.GetData())
						}
						if string(m.EntityComponent.GetData()) == fmt.Sprintf("n%d", next) {
							next++
						}
					}
				}
				if !after {
					x.fail("answer-count", "unsub:answers-under-back-pressure", "c's unsubscribe was never answered")
				}
				if next != 3 {
					x.fail("relay", fmt.Sprintf("cupd:lost-or-reordered-under-back-pressure:%d-of-3", next), "c was subscribed while three updates (one per frame) were made: it received %d of them in order", next)
				}
			},
			Final: finalInvariants}
	})
}

// floodCustoms2 continues the numbering at `start`.
func floodCustoms2(x *Ctx, from string, start, n int) {
	for i := start; i < start+n; i++ {
		x.C[from].SendMsg(&hagallpb.CustomMessage{Type: hagallpb.MsgType_MSG_TYPE_CUSTOM_MESSAGE, Timestamp: x.W.NextTS(), Body: []byte(fmt.Sprintf("x%d", i))})
	}
	x.W.Run()
}

var bpBlocks = []string{"bp-state-and-requests", "bp-refused-join-same", "bp-refused-join-unknown", "bp-unsubscribe-behind-notifications"}

func init() {
	for _, id := range []string{"C01", "C02", "C04", "C11", "C13", "C14", "C16", "C08", "C19"} {
		check.WrapPlanner(id, func(tier string, jobs []check.Job) []check.Job {
			for _, b := range bpBlocks {
				jobs = append(jobs, s2job(b, 0, 300))
			}
			return jobs
		})
	}
}

func init() {
	// the message classes of C14 / C16 against a join (the newcomer is owed what is
	// relayed once its join has been announced)
	check.WrapPlanner("C14", func(tier string, jobs []check.Job) []check.Job {
		b := 2
		if tier == "thorough" {
			b = 3
		}
		return append(jobs, s2job(pairName(pairReq{"a", "custom"}, pairReq{"d", "join"}), b, 300), s2job(pairName(pairReq{"a", "customto"}, pairReq{"d", "join"}), b, 300), s2job(pairName(pairReq{"a", "custom"}, pairReq{"b", "switch"}, pairReq{"d", "join"}), 1, 300))
	})
	check.WrapPlanner("C16", func(tier string, jobs []check.Job) []check.Job {
		b := 2
		if tier == "thorough" {
			b = 3
		}
		return append(jobs, s2job(pairName(pairReq{"a", "action"}, pairReq{"d", "join"}), b, 300), s2job(pairName(pairReq{"b", "asset"}, pairReq{"d", "join"}), b, 300), s2job(pairName(pairReq{"a", "action"}, pairReq{"b", "action"}), b, 300), s2job(pairName(pairReq{"a", "edel"}, pairReq{"b", "action"}), b, 300))
	})
}

// A connection pipelines a request that ends it (a session-scoped request before any
// join: protocol error, the server disconnects) with a join and an entity add behind
// it: nothing queued behind the fatal request may take effect once the teardown has run
// (ghost participant, orphaned session). Which ready select case the main loop takes is
// explored.
func init() {
	registerBlock("c07-pipelined-join-behind-fatal-request", func() *Block {
		return &Block{
			Cfg:           world.Config{Modules: []string{"vikja", "odal"}},
			ExploreSelect: true,
			Setup:         func(x *Ctx) { x.conn("v", "o"); x.join("v", "") },
			Fire: func(x *Ctx) {
				o := x.C["o"]
				o.SendMsg(&hagallpb.EntityAddRequest{Type: hagallpb.MsgType_MSG_TYPE_ENTITY_ADD_REQUEST, Timestamp: x.W.NextTS(), RequestId: o.NextReqID()})
				m, rid := joinReq(x.W, o, x.J["v"].SessionID)
				x.Vars["rid"] = rid
				o.SendMsg(m)
				o.SendMsg(&hagallpb.EntityAddRequest{Type: hagallpb.MsgType_MSG_TYPE_ENTITY_ADD_REQUEST, Timestamp: x.W.NextTS(), RequestId: o.NextReqID()})
			},
			Check: func(x *Ctx) {
				o := x.C["o"]
				if !(o.Pipe.ServerClosed() || o.HandlerReturned) {
					return // the server chose to answer the first request with an error and go on: then the join is legitimate
				}
				sess, ok := x.W.Store.GetByGlobalID(x.J["v"].SessionID)
				if !ok {
					x.fail("orphaned-join", "id-does-not-resolve", "v's session no longer resolves")
					return
				}
				for _, p := range sess.GetParticipants() {
					if p.ID != x.J["v"].ParticipantID {
						x.fail("ghost", "participant-of-ended-connection", "o's connection was ended by its first request, yet participant %d (the join queued behind it) is a member of v's session", p.ID)
					}
				}
				joins, leaves := 0, 0
				for _, r := range x.C["v"].All() {
					switch r.Msg.(type) {
					case *hagallpb.ParticipantJoinBroadcast:
						joins++
					case *hagallpb.ParticipantLeaveBroadcast:
						leaves++
					}
				}
				if joins != leaves {
					x.fail("departure", fmt.Sprintf("witness-told-%d-joins-%d-leaves", joins, leaves), "v was told of %d joins and %d departures of a connection that is gone", joins, leaves)
				}
				probeMembers(x, []string{"v"})
			},
			Final: finalInvariants,
		}
	})
	for _, id := range []string{"C07", "C06", "C08", "C09"} {
		id := id
		check.WrapPlanner(id, func(tier string, jobs []check.Job) []check.Job {
			b := 2
			if tier == "thorough" {
				b = 3
			}
			if id == "C08" || id == "C09" {
				return append(jobs, s2jobOpt("c07-pipelined-join-behind-fatal-request", b, 300, true, false))
			}
			return append(jobs, s2job("c07-pipelined-join-behind-fatal-request", b, 300))
		})
	}
}

// ---- a request made after a newcomer's join was answered --------------------------------
//
// d joins; as soon as d's client has its PARTICIPANT_JOIN_RESPONSE in hand (real-time
// order: the join precedes), a makes a request whose relay every other member is owed.
// The request may be placed at any scheduling point after the response arrived (an
// environment deviation), d's main loop may be preempted in the rest of its join
// handler. d must be relayed a's request: it was a member before the request was made.

type joinRelayParams struct {
	Kind  string `json:"kind"`
	Bound int    `json:"bound"`
}

func runJoinThenRelay(kind string, ch vrt.Chooser) explore.Outcome {
	w := world.New(world.Config{Modules: []string{"vikja", "odal"}}, ch)
	s := w.S
	s.EagerLabels = []string{eagerPrefix}
	s.NoPreempt = true
	x := &Ctx{W: w, C: map[string]*world.Client{}, J: map[string]JoinInfo{}, Vars: map[string]any{}}
	baseB1(x)
	d := x.C["d"]
	var q *breq
	var jrid uint32
	env := []func(){
		func() {
			m, rid := joinReq(w, d, x.J["a"].SessionID)
			jrid = rid
			d.SendMsg(m)
		},
		func() {
			// only once d holds the answer to its join
			if ji := parseJoin(d.All(), jrid); !ji.OK {
				return
			}
			q = buildReq(x, pairReq{"a", kind})
			x.C["a"].SendMsg(q.msg)
			if q.tick {
				s.Advance(w.Cfg.FrameDuration)
			}
		},
	}
	s.NoPreempt = false
	s.ForgetLastRun()
	s.RunScript(env)
	s.NoPreempt = true
	if st := stuck(s); len(st) > 0 {
		x.fail("deadlock", stuckClass(s), "threads blocked forever: %v", st)
	} else {
		for i := 0; i < 2; i++ {
			w.Tick(w.Cfg.FrameDuration)
		}
		if q != nil {
			accepted := q.rid == 0 || (q.accept != nil && q.accept(respsOf(x.C["a"].All(), q.rid)))
			cnt := 0
			for _, r := range d.All() {
				if r.Type == q.relayType && s1.Canon(r).Origin == q.ts {
					cnt++
				}
			}
			if accepted && cnt != 1 {
				x.fail("relay", kind+":newcomer-relayed-"+fmt.Sprint(cnt)+"-times-after-its-join-was-answered", "d's join had been answered when a made its %s request; d was relayed it %d times", kind, cnt)
			}
		}
	}
	left := w.Finish()
	for _, p := range w.Panics {
		x.fail("panic", "goroutine-panicked:"+p.Label+":"+panicSite(p.Stack), "a server goroutine (%s) panicked: %s", p.Label, p.Value)
	}
	finalInvariants(x, left)
	return explore.Outcome{Points: s.Points, Steps: s.Steps, HitCap: s.HitCap, Violations: x.V, Key: outcomeKey(x)}
}

func init() {
	check.Register("joinrelay", func(j *check.Job) *check.Result {
		var p joinRelayParams
		json.Unmarshal(j.Params, &p)
		res := &check.Result{Bound: p.Bound, Extra: map[string]any{"kind": p.Kind}}
		if j.Replay != nil {
			out := runJoinThenRelay(p.Kind, &explore.FixedChooser{Choices: j.Replay.Choices})
			for _, v := range out.Violations {
				res.Violations = append(res.Violations, check.Violation{Scenario: j.Name, Oracle: v.Oracle, Detail: v.Detail, Info: v.Info, Tags: violationTags(v.Oracle, v.Detail)})
			}
			res.Executions, res.Exhaustive = 1, true
			return res
		}
		cfg := explore.Config{Bound: p.Bound}
		if j.BudgetS > 0 {
			cfg.Deadline = time.Now().Add(time.Duration(j.BudgetS) * time.Second)
		}
		st := explore.Explore(func(ch vrt.Chooser) explore.Outcome { return runJoinThenRelay(p.Kind, ch) }, cfg)
		res.Executions, res.States, res.Transitions, res.Steps = st.Executions, st.Executions, st.Points+st.Executions, st.Steps
		res.Outcomes, res.Exhaustive, res.CapHit, res.MaxDepth = len(st.Outcomes), st.Exhaustive, st.CapHit, st.MaxPoints
		res.BoundDone = &st.BoundDone
		if len(st.Diverged) > 0 {
			res.EngineError = "replay divergence: " + st.Diverged[0]
		}
		seen := map[string]bool{}
		for _, f := range st.Found {
			if !seen[f.Oracle+f.Detail] {
				seen[f.Oracle+f.Detail] = true
				res.Violations = append(res.Violations, check.Violation{Scenario: j.Name, Oracle: f.Oracle, Detail: f.Detail, Info: f.Info, Replay: &check.Replay{Choices: trimZeros(f.Prefix)}, Tags: violationTags(f.Oracle, f.Detail)})
			}
		}
		res.Samples = []any{map[string]any{"script": []string{"d:join", "a:" + p.Kind + " once d holds its join response"}, "bound": p.Bound}}
		return res
	})
	jr := func(kind string, bound int) check.Job {
		p, _ := json.Marshal(joinRelayParams{Kind: kind, Bound: bound})
		return check.Job{Kind: "joinrelay", Name: "S3:join-answered-then-" + kind, Params: p, BudgetS: 300}
	}
	for id, kinds := range map[string][]string{"C14": {"custom"}, "C16": {"action"}, "C11": {"pose"}, "C02": {"custom", "eadd", "edel", "action"}, "C01": {"eadd", "edel"}} {
		kinds := kinds
		check.WrapPlanner(id, func(tier string, jobs []check.Job) []check.Job {
			b := 2
			if tier == "thorough" {
				b = 3
			}
			for _, k := range kinds {
				jobs = append(jobs, jr(k, b))
			}
			return jobs
		})
	}
}
