package props

import (
	"encoding/json"
	"fmt"

	"github.com/aukilabs/hagall-common/messages/dagazpb"
	"github.com/aukilabs/hagall-common/messages/hagallpb"
	"github.com/aukilabs/hagall-common/messages/odalpb"
	"github.com/aukilabs/hagall-common/messages/vikjapb"
	"google.golang.org/protobuf/types/known/timestamppb"

	"verif/check"
	"verif/world"
)

// ---- C09: no corruption, no deadlock under concurrency ----------------------------------

func s2jobOpt(block string, bound, budget int, prod, race bool) check.Job {
	p, _ := json.Marshal(S2Params{Block: block, Bound: bound, Prod: prod})
	name := "S2:" + block
	if race {
		name += "+race"
	}
	return check.Job{Kind: "s2", Name: name, Params: p, BudgetS: budget, Race: race, CrashIsViolation: true}
}

func init() {
	pt := func(x, y, z float32) *dagazpb.Point { return &dagazpb.Point{X: x, Y: y, Z: z} }
	quadMsg := func(x *Ctx, cx float32) *dagazpb.DagazQuadSample {
		return &dagazpb.DagazQuadSample{Type: dagazpb.MsgType_MSG_TYPE_DAGAZ_QUAD_SAMPLE, Timestamp: x.W.NextTS(), Samples: []*dagazpb.Quad{{Center: pt(cx, 0, 1), Extents: pt(0.5, 0, 0.5)}}}
	}
	regionCount := func(x *Ctx, n string) int {
		c := x.C[n]
		rid := c.NextReqID()
		c.SendMsg(&dagazpb.DagazGetRegionRequest{Type: dagazpb.MsgType_MSG_TYPE_DAGAZ_GET_REGION_REQUEST, Timestamp: x.W.NextTS(), RequestId: rid, Min: pt(-100, 0, -100), Max: pt(100, 0, 100)})
		x.W.Run()
		for _, r := range c.Take() {
			if m, ok := r.Msg.(*dagazpb.DagazGetRegionResponse); ok && m.RequestId == rid {
				return len(m.Quads)
			}
		}
		return -1
	}
	two := func(x *Ctx) {
		x.conn("a", "b")
		x.join("a", "")
		x.join("b", x.J["a"].SessionID)
		x.C["a"].Take()
	}
	allMods := world.Config{Modules: []string{"vikja", "odal", "dagaz"}}
	registerBlock("c09-quad-quad", func() *Block {
		return &Block{Cfg: allMods, Setup: two,
			Fire: func(x *Ctx) {
				x.C["a"].SendMsg(quadMsg(x, 1))
				x.C["b"].SendMsg(quadMsg(x, 9))
			},
			Check: func(x *Ctx) {
				if n := regionCount(x, "a"); n != 2 {
					x.fail("corruption", "groundplane-sample-lost", "two participants inserted one disjoint sample each concurrently; a region query returns %d planes", n)
				}
			},
			Final: finalInvariants}
	})
	registerBlock("c09-quad-region", func() *Block {
		return &Block{Cfg: allMods,
			Setup: func(x *Ctx) { two(x); x.C["a"].SendMsg(quadMsg(x, 1)); x.W.Run() },
			Fire: func(x *Ctx) {
				x.C["a"].SendMsg(quadMsg(x, 9))
				c := x.C["b"]
				rid := c.NextReqID()
				x.Vars["rid"] = rid
				c.SendMsg(&dagazpb.DagazGetRegionRequest{Type: dagazpb.MsgType_MSG_TYPE_DAGAZ_GET_REGION_REQUEST, Timestamp: x.W.NextTS(), RequestId: rid, Min: pt(-100, 0, -100), Max: pt(100, 0, 100)})
			},
			Check: func(x *Ctx) {
				got := -1
				for _, r := range x.C["b"].Take() {
					if m, ok := r.Msg.(*dagazpb.DagazGetRegionResponse); ok && m.RequestId == x.Vars["rid"].(uint32) {
						got = len(m.Quads)
					}
				}
				if got != 1 && got != 2 {
					x.fail("answer", "region-query-unanswered-or-wrong", "region query concurrent with an insert returned %d planes (1 or 2 expected)", got)
				}
				if n := regionCount(x, "b"); n != 2 {
					x.fail("corruption", "groundplane-sample-lost", "after the block a region query returns %d planes, 2 expected", n)
				}
			},
			Final: finalInvariants}
	})
	// a sample that merges into a stored plane against a region query reading that plane
	registerBlock("c09-mergequad-region", func() *Block {
		return &Block{Cfg: allMods,
			Setup: func(x *Ctx) { two(x); x.C["a"].SendMsg(quadMsg(x, 1)); x.W.Run() },
			Fire: func(x *Ctx) {
				x.C["a"].SendMsg(&dagazpb.DagazQuadSample{Type: dagazpb.MsgType_MSG_TYPE_DAGAZ_QUAD_SAMPLE, Timestamp: x.W.NextTS(), Samples: []*dagazpb.Quad{{Center: pt(1.1, 0.1, 1.1), Extents: pt(0.75, 0, 0.75)}}})
				c := x.C["b"]
				rid := c.NextReqID()
				x.Vars["rid"] = rid
				c.SendMsg(&dagazpb.DagazGetRegionRequest{Type: dagazpb.MsgType_MSG_TYPE_DAGAZ_GET_REGION_REQUEST, Timestamp: x.W.NextTS(), RequestId: rid, Min: pt(-100, 0, -100), Max: pt(100, 0, 100)})
			},
			Check: func(x *Ctx) {
				if n := regionCount(x, "b"); n != 1 {
					x.fail("corruption", "groundplane-merge-lost", "a sample overlapping the stored plane must merge into it; a region query returns %d planes", n)
				}
			},
			Final: finalInvariants}
	})
	// the session's only member, who inserted two planes, departs while a
	// newcomer joins: if the newcomer got in, the session lived on and its
	// index must still hold both planes (C20: retained while the session lives)
	for _, how := range []string{"close", "switch"} {
		how := how
		registerBlock("c20-lastleave-vs-join-"+how, func() *Block {
			return &Block{Cfg: allMods,
				Setup: func(x *Ctx) {
					x.conn("a", "b")
					x.join("a", "")
					x.C["a"].SendMsg(quadMsg(x, 1))
					x.C["a"].SendMsg(quadMsg(x, 9))
					x.W.Run()
					x.C["a"].Take()
				},
				Fire: func(x *Ctx) {
					m, rid := joinReq(x.W, x.C["b"], x.J["a"].SessionID)
					x.Vars["rid"] = rid
					x.Vars["uuid"] = x.J["a"].UUID
					x.C["b"].SendMsg(m)
					if how == "close" {
						x.C["a"].Close()
					} else {
						m2, _ := joinReq(x.W, x.C["a"], "")
						x.C["a"].SendMsg(m2)
					}
				},
				Check: func(x *Ctx) {
					ji := parseJoin(x.C["b"].Take(), x.Vars["rid"].(uint32))
					delete(x.J, "a")
					if !ji.OK {
						return // the session ended before b got in
					}
					x.J["b"] = ji
					if ji.UUID != x.Vars["uuid"].(string) {
						return // the old session ended and its id was issued again to the session a created
					}
					if n := regionCount(x, "b"); n != 2 {
						x.fail("groundplane", fmt.Sprintf("planes-lost-while-session-lives:%d-of-2", n), "the session's only member had inserted two disjoint samples and departed while b joined; b got in (the session never ended) but its covering region query returns %d planes", n)
					}
				},
				Final: finalInvariants}
		})
	}
	// two first joins of a fresh session: creation of the modules' shared state
	registerBlock("c09-first-joins", func() *Block {
		return &Block{Cfg: allMods,
			Setup: func(x *Ctx) { x.conn("a", "b", "c") },
			Fire: func(x *Ctx) {
				m, rid := joinReq(x.W, x.C["a"], "")
				x.Vars["a"] = rid
				x.C["a"].SendMsg(m)
				m2, rid2 := joinReq(x.W, x.C["b"], "srvx1")
				x.Vars["b"] = rid2
				x.C["b"].SendMsg(m2)
			},
			Check: func(x *Ctx) {
				ja := parseJoin(x.C["a"].Take(), x.Vars["a"].(uint32))
				jb := parseJoin(x.C["b"].Take(), x.Vars["b"].(uint32))
				if !ja.OK {
					x.fail("answer", "create-refused", "creation refused: %v", ja.Code)
					return
				}
				x.J["a"] = ja
				if !jb.OK {
					return // b looked the id up before the session was registered: fine
				}
				x.J["b"] = jb
				// both are in the session: what each writes into module state must be shared
				a, b := x.C["a"], x.C["b"]
				add := func(c *world.Client) uint32 {
					rid := c.NextReqID()
					c.SendMsg(&hagallpb.EntityAddRequest{Type: hagallpb.MsgType_MSG_TYPE_ENTITY_ADD_REQUEST, Timestamp: x.W.NextTS(), RequestId: rid})
					x.W.Run()
					for _, r := range c.Take() {
						if m, ok := r.Msg.(*hagallpb.EntityAddResponse); ok {
							return m.EntityId
						}
					}
					return 0
				}
				ea, eb := add(a), add(b)
				a.SendMsg(&vikjapb.EntityActionRequest{Type: vikjapb.MsgType_MSG_TYPE_VIKJA_ENTITY_ACTION_REQUEST, Timestamp: x.W.NextTS(), RequestId: a.NextReqID(), EntityAction: &vikjapb.EntityAction{EntityId: ea, Name: "n", Timestamp: &timestamppb.Timestamp{Seconds: 5}}})
				b.SendMsg(&vikjapb.EntityActionRequest{Type: vikjapb.MsgType_MSG_TYPE_VIKJA_ENTITY_ACTION_REQUEST, Timestamp: x.W.NextTS(), RequestId: b.NextReqID(), EntityAction: &vikjapb.EntityAction{EntityId: eb, Name: "n", Timestamp: &timestamppb.Timestamp{Seconds: 5}}})
				a.SendMsg(&odalpb.AssetInstanceAddRequest{Type: odalpb.MsgType_MSG_TYPE_ODAL_ASSET_INSTANCE_ADD_REQUEST, Timestamp: x.W.NextTS(), RequestId: a.NextReqID(), EntityId: ea, AssetId: "xa"})
				b.SendMsg(&odalpb.AssetInstanceAddRequest{Type: odalpb.MsgType_MSG_TYPE_ODAL_ASSET_INSTANCE_ADD_REQUEST, Timestamp: x.W.NextTS(), RequestId: b.NextReqID(), EntityId: eb, AssetId: "xb"})
				a.SendMsg(quadMsg(x, 1))
				b.SendMsg(quadMsg(x, 9))
				x.W.Run()
				pj := join(x.W, x.C["c"], ja.SessionID)
				actions, assets := 0, 0
				for _, r := range x.C["c"].All() {
					switch m := r.Msg.(type) {
					case *vikjapb.State:
						actions = len(m.EntityActions)
					case *odalpb.State:
						assets = len(m.AssetInstances)
					}
				}
				if !pj.OK || actions != 2 || assets != 2 {
					x.fail("corruption", fmt.Sprintf("module-state-split:%d-actions-%d-assets", actions, assets), "a and b both joined the fresh session and each stored one action and one asset; a newcomer is handed %d actions and %d assets (each module kept its own state object)", actions, assets)
				}
				if n := regionCount(x, "c"); n != 2 {
					x.fail("corruption", "groundplane-state-split", "a and b each inserted a sample; a newcomer's region query returns %d planes", n)
				}
			},
			Final: finalInvariants}
	})

	check.RegisterProp("C09", func(tier string) []check.Job {
		bRace, bPlain, budget := 1, 1, 300
		if tier == "thorough" {
			bRace, bPlain, budget = 2, 2, 2400
		}
		var jobs []check.Job
		core := []string{"c07-join-vs-lastleave-close", "c07-lastleave-vs-lastleave", "c07-create-vs-create", "c10-eadd-eadd", "c10-join-join", "c10-tadd-same", "c10-asset-asset", "c09-quad-quad", "c09-quad-region", "c09-mergequad-region", "c09-first-joins", "c07-lastleave-vs-create", "c06-lastleave-entity-vs-join",
			"c11-pending-pose-tick-vs-close", "c11-pending-pose-tick-vs-switch", "c11-pending-cupd-tick-vs-close", "c11-pending-cupd-tick-vs-switch"}
		for _, b := range core {
			pb := bPlain + 1
			if tier != "thorough" && (b == "c07-create-vs-create" || b == "c07-lastleave-vs-lastleave" || b == "c07-lastleave-vs-create") {
				pb = bPlain // C07 runs these one bound deeper without the decorators
			}
			jobs = append(jobs, s2jobOpt(b, bRace, budget, true, true), s2jobOpt(b, pb, budget, true, false))
		}
		for _, p := range pairList {
			if len(p) > 2 {
				// three requests: expensive in the race build; sharded, thorough tier only
				if tier == "thorough" {
					for i := 0; i < 6; i++ {
						pp, _ := json.Marshal(S2Params{Block: pairName(p...), Bound: bRace, Prod: true, ShardIdx: i, ShardN: 6})
						jobs = append(jobs, check.Job{Kind: "s2", Name: "S2:" + pairName(p...) + "+race", Params: pp, BudgetS: budget, Race: true, CrashIsViolation: true})
					}
					jobs = append(jobs, s2jobOpt(pairName(p...), bPlain, budget, true, false))
				} else {
					jobs = append(jobs, s2jobOpt(pairName(p...), 1, budget, true, false))
				}
				continue
			}
			jobs = append(jobs, s2jobOpt(pairName(p...), bRace, budget, true, true))
			if tier == "thorough" {
				jobs = append(jobs, s2jobOpt(pairName(p...), bPlain, budget, true, false))
			}
		}
		for _, n := range fourList {
			jobs = append(jobs, s2jobOpt(n, bRace, budget, true, true))
		}
		p, _ := json.Marshal(map[string]int{"threads": 2})
		jobs = append(jobs, check.Job{Kind: "store-lin", Name: "LIN:component-store", Params: p, BudgetS: budget})
		return jobs
	}, check.PropInfo{
		Rule:        "S2 over the whole block catalogue (every pair of the concurrency alphabet on a shared session, the join/leave/create races, concurrent allocations, ground-plane insert/query, two first joins of a fresh session) in the production decoration (logs + metrics decorators, all modules), 3-4 connections; every lock/channel-granularity interleaving within the preemption bound is executed twice: in the -race build (Go's happens-before detector observing the serialised execution; the scheduler's hand-offs create no happens-before edge) and in the plain build one bound deeper. Oracles: race reports between two hagall threads at hagall access sites (signature = the two access functions), deadlock states, lock-order graph over the union of executions acyclic, every request completes, shared module state not split, worker process alive; plus linearizability of the component store's exported API (2-3 threads) against a map specification with porcupine.",
		Assumptions: []string{"4 connections, not 16: the bound is stated, larger fan-out is not explored", "receiver/sender threads eager", "race detector = pure happens-before on each explored schedule; accesses by harness code and by the controller goroutine are filtered out"},
	})
}
