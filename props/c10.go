package props

import (
	"encoding/json"
	"fmt"
	"sort"
	"time"

	"github.com/aukilabs/hagall-common/messages/hagallpb"
	"github.com/aukilabs/hagall-common/messages/odalpb"
	"github.com/aukilabs/hagall/models"

	"verif/check"
	"verif/explore"
	"verif/vrt"
)

// ---- C10 (a): the id source alone, through its exported API ------------------

// idop: 0 = New, k>0 = Reuse(the (k-1)-th smallest id currently held).
type idop int

type idgenParams struct {
	Depth   int  `json:"depth"`
	Threads bool `json:"threads,omitempty"`
	Bound   int  `json:"bound,omitempty"`
}

// runIDSeq executes one operation sequence on a fresh generator inside a
// controlled thread (so that map iteration order is an explored choice).
func runIDSeq(ops []idop, ch vrt.Chooser) (out explore.Outcome) {
	s := vrt.NewSched(ch)
	vrt.ResetClasses()
	vrt.S = s
	s.ExploreMapOrder = true
	var g models.SequentialIDGenerator
	held := map[uint32]bool{}
	var issued []uint32
	var viol []explore.Violation
	s.Spawn("idgen", func() {
		for _, op := range ops {
			if op == 0 {
				id := g.New()
				issued = append(issued, id)
				if held[id] {
					viol = append(viol, explore.Violation{Oracle: "id-source", Detail: "new-returns-held-id", Info: fmt.Sprintf("New returned %d which is still held; ops=%v issued=%v", id, ops, issued)})
				}
				if id == 0 {
					viol = append(viol, explore.Violation{Oracle: "id-source", Detail: "new-returns-zero", Info: fmt.Sprintf("New returned 0; ops=%v", ops)})
				}
				held[id] = true
			} else {
				var hs []uint32
				for h := range held {
					hs = append(hs, h)
				}
				sort.Slice(hs, func(i, j int) bool { return hs[i] < hs[j] })
				x := hs[int(op)-1]
				g.Reuse(x)
				delete(held, x)
			}
		}
	})
	s.RunQuiescent()
	s.Join()
	vrt.S = nil
	out.Points = s.Points
	out.Steps = s.Steps
	out.Violations = viol
	out.Key = fmt.Sprint(issued)
	return out
}

func init() {
	check.Register("idgen", func(j *check.Job) *check.Result {
		var p idgenParams
		json.Unmarshal(j.Params, &p)
		res := &check.Result{Extra: map[string]any{}, Exhaustive: true}
		if j.Replay != nil {
			var ops []idop
			json.Unmarshal(j.Replay.History, &ops)
			out := runIDSeq(ops, &explore.FixedChooser{Choices: j.Replay.Choices})
			fmt.Println("   ops", ops, "issued", out.Key)
			for _, v := range out.Violations {
				res.Violations = append(res.Violations, check.Violation{Scenario: j.Name, Oracle: v.Oracle, Detail: v.Detail, Info: v.Info})
			}
			res.Executions = 1
			return res
		}
		if p.Threads {
			return runIDThreads(j, p)
		}
		seen := map[string]bool{}
		outcomes := map[string]bool{}
		var rec func(ops []idop, held int)
		nseq := 0
		rec = func(ops []idop, held int) {
			if len(ops) > 0 {
				nseq++
				st := explore.Explore(func(ch vrt.Chooser) explore.Outcome { return runIDSeq(ops, ch) }, explore.Config{Bound: 64})
				res.Executions += st.Executions
				res.Transitions += st.Executions * len(ops)
				res.Steps += st.Steps
				for k := range st.Outcomes {
					outcomes[k] = true
				}
				for _, f := range st.Found {
					if !seen[f.Detail] {
						seen[f.Detail] = true
						hb, _ := json.Marshal(ops)
						res.Violations = append(res.Violations, check.Violation{Scenario: j.Name, Oracle: f.Oracle, Detail: f.Detail, Info: f.Info, Replay: &check.Replay{History: hb, Choices: f.Prefix}})
					}
				}
			}
			if len(ops) == p.Depth {
				return
			}
			rec(append(append([]idop{}, ops...), 0), held+1)
			for k := 1; k <= held; k++ {
				rec(append(append([]idop{}, ops...), idop(k)), held-1)
			}
		}
		rec(nil, 0)
		res.States = nseq
		res.Outcomes = len(outcomes)
		res.MaxDepth = p.Depth
		res.Samples = []any{map[string]any{"ops": "New New Reuse(1st held) New", "meaning": "every sequence of New / Reuse(x held) up to the depth, every map iteration order"}}
		res.Extra["sequences"] = nseq
		return res
	})

	check.RegisterProp("C10", func(tier string) []check.Job {
		d, b, budget := 8, 2, 150
		ld := 6
		if tier == "thorough" {
			d, b, budget, ld = 9, 3, 1200, 8
		}
		p1, _ := json.Marshal(idgenParams{Depth: d})
		p2, _ := json.Marshal(idgenParams{Threads: true, Bound: b})
		jobs := []check.Job{
			{Kind: "idgen", Name: "ID:sequences", Params: p1, BudgetS: budget},
			{Kind: "idgen", Name: "ID:threads", Params: p2, BudgetS: budget},
			s1job("lifecycle", ld, []string{"C10"}, 4, budget),
			s1job("entities", ld, []string{"C10"}, 4, budget),
			s1job("modules", 4, []string{"C10"}, 2, budget),
			s1job("components-ids", 3, []string{"C10"}, 2, budget),
		}
		jobs = append(jobs, s2sharded("c07-join-lastleave-create", b, budget, 8)...)
		for _, blk := range []string{"c10-eadd-eadd", "c10-join-join", "c10-tadd-same", "c10-tadd-other", "c10-asset-asset", "c07-create-vs-create", "c09-first-joins"} {
			jobs = append(jobs, s2job(blk, b, budget))
			// the same schedules in the -race build: an id source that is not
			// synchronised at all has no scheduling point to interleave at; the
			// happens-before detector sees it on any schedule with two allocations
			jobs = append(jobs, s2jobOpt(blk, 1, budget, false, true))
		}
		return jobs
	}, check.PropInfo{
		Rule:        "(a) the id source alone through its exported API: every sequence of New / Reuse(x currently held) up to the depth, every map iteration order, plus 2-3 threads x <=2 operations under the schedule DFS; (b) whole system: S1 families (ids seen in responses, SessionState, module states) and S2 blocks of concurrent allocations (also in the -race build, race reports at the id sources); oracle: New never returns a held id, per-session participant/entity ids never repeat, type id <-> name one-to-one, asset instance ids unique, live session ids distinct",
		Assumptions: append([]string{"Reuse is only ever called with an id that is currently held (what hagall does); Reuse of other ids is outside the property"}, s1Assumptions...),
	})

	// ---- S2 blocks of concurrent allocations -------------------------------------
	two := func(x *Ctx) {
		x.conn("a", "b")
		x.join("a", "")
		x.join("b", x.J["a"].SessionID)
		x.C["a"].Take()
	}
	registerBlock("c10-eadd-eadd", func() *Block {
		return &Block{
			Setup: two,
			Fire: func(x *Ctx) {
				for _, n := range []string{"a", "b"} {
					rid := x.C[n].NextReqID()
					x.Vars[n] = rid
					x.C[n].SendMsg(&hagallpb.EntityAddRequest{Type: hagallpb.MsgType_MSG_TYPE_ENTITY_ADD_REQUEST, Timestamp: x.W.NextTS(), RequestId: rid})
				}
			},
			Check: func(x *Ctx) {
				ids := map[uint32]string{}
				for _, n := range []string{"a", "b"} {
					got := false
					for _, r := range x.C[n].Take() {
						if m, ok := r.Msg.(*hagallpb.EntityAddResponse); ok && m.RequestId == x.Vars[n].(uint32) {
							got = true
							if o, dup := ids[m.EntityId]; dup {
								x.fail("id", "entity-id-issued-twice", "concurrent entity adds of %s and %s were both given id %d", o, n, m.EntityId)
							}
							ids[m.EntityId] = n
						}
					}
					if !got {
						x.fail("answer", "eadd-unanswered", "entity add of %s was not answered", n)
					}
				}
				probeIDs(x, "a")
			},
			Final: finalInvariants,
		}
	})
	registerBlock("c10-join-join", func() *Block {
		return &Block{
			Setup: func(x *Ctx) { x.conn("a", "b", "c"); x.join("a", "") },
			Fire: func(x *Ctx) {
				for _, n := range []string{"b", "c"} {
					m, rid := joinReq(x.W, x.C[n], x.J["a"].SessionID)
					x.Vars[n] = rid
					x.C[n].SendMsg(m)
				}
			},
			Check: func(x *Ctx) {
				pids := map[uint32]string{x.J["a"].ParticipantID: "a"}
				members := []string{"a"}
				for _, n := range []string{"b", "c"} {
					ji := parseJoin(x.C[n].Take(), x.Vars[n].(uint32))
					if !ji.OK {
						x.fail("answer", "join-of-live-session-refused", "join of %s refused: %v", n, ji.Code)
						continue
					}
					x.J[n] = ji
					members = append(members, n)
					if o, dup := pids[ji.ParticipantID]; dup {
						x.fail("id", "participant-id-issued-twice", "%s and %s were both given participant id %d", o, n, ji.ParticipantID)
					}
					pids[ji.ParticipantID] = n
				}
				registryInvariants(x, members)
				probeMembers(x, members)
			},
			Final: finalInvariants,
		}
	})
	tadd := func(name string, names [2]string) func() *Block {
		return func() *Block {
			return &Block{
				Setup: two,
				Fire: func(x *Ctx) {
					for i, n := range []string{"a", "b"} {
						rid := x.C[n].NextReqID()
						x.Vars[n] = rid
						x.C[n].SendMsg(&hagallpb.EntityComponentTypeAddRequest{Type: hagallpb.MsgType_MSG_TYPE_ENTITY_COMPONENT_TYPE_ADD_REQUEST, Timestamp: x.W.NextTS(), RequestId: rid, EntityComponentTypeName: names[i]})
					}
				},
				Check: func(x *Ctx) {
					got := map[string]uint32{}
					for _, n := range []string{"a", "b"} {
						for _, r := range x.C[n].Take() {
							if m, ok := r.Msg.(*hagallpb.EntityComponentTypeAddResponse); ok && m.RequestId == x.Vars[n].(uint32) {
								got[n] = m.EntityComponentTypeId
							}
						}
						if _, ok := got[n]; !ok {
							x.fail("answer", "tadd-unanswered", "type add of %s not answered", n)
							return
						}
					}
					same := names[0] == names[1]
					if same && got["a"] != got["b"] {
						x.fail("id", "one-name-two-type-ids", "the same type name was registered under ids %d and %d", got["a"], got["b"])
					}
					if !same && got["a"] == got["b"] {
						x.fail("id", "two-names-one-type-id", "two type names were both given id %d", got["a"])
					}
					// names and ids resolve to each other afterwards
					for i, n := range []string{"a", "b"} {
						c := x.C[n]
						rid := c.NextReqID()
						c.SendMsg(&hagallpb.EntityComponentTypeGetIdRequest{Type: hagallpb.MsgType_MSG_TYPE_ENTITY_COMPONENT_TYPE_GET_ID_REQUEST, Timestamp: x.W.NextTS(), RequestId: rid, EntityComponentTypeName: names[i]})
						rid2 := c.NextReqID()
						c.SendMsg(&hagallpb.EntityComponentTypeGetNameRequest{Type: hagallpb.MsgType_MSG_TYPE_ENTITY_COMPONENT_TYPE_GET_NAME_REQUEST, Timestamp: x.W.NextTS(), RequestId: rid2, EntityComponentTypeId: got[n]})
						x.W.Run()
						for _, r := range c.Take() {
							switch m := r.Msg.(type) {
							case *hagallpb.EntityComponentTypeGetIdResponse:
								if m.EntityComponentTypeId != got[n] {
									x.fail("id", "name-resolves-to-other-id", "%s was told id %d for %q, which now resolves to %d", n, got[n], names[i], m.EntityComponentTypeId)
								}
							case *hagallpb.EntityComponentTypeGetNameResponse:
								if m.EntityComponentTypeName != names[i] {
									x.fail("id", "id-resolves-to-other-name", "id %d given for %q resolves to %q", got[n], names[i], m.EntityComponentTypeName)
								}
							case *hagallpb.ErrorResponse:
								x.fail("id", "registered-type-does-not-resolve", "look-up after registration refused with %v", m.Code)
							}
						}
					}
				},
				Final: finalInvariants,
			}
		}
	}
	registerBlock("c10-tadd-same", tadd("same", [2]string{"T", "T"}))
	registerBlock("c10-tadd-other", tadd("other", [2]string{"T", "U"}))
	registerBlock("c10-asset-asset", func() *Block {
		return &Block{
			Cfg: worldCfgMods("vikja", "odal"),
			Setup: func(x *Ctx) {
				two(x)
				for _, n := range []string{"a", "b"} {
					rid := x.C[n].NextReqID()
					x.C[n].SendMsg(&hagallpb.EntityAddRequest{Type: hagallpb.MsgType_MSG_TYPE_ENTITY_ADD_REQUEST, Timestamp: x.W.NextTS(), RequestId: rid})
					x.W.Run()
					for _, r := range x.C[n].Take() {
						if m, ok := r.Msg.(*hagallpb.EntityAddResponse); ok {
							x.Vars["e"+n] = m.EntityId
						}
					}
				}
				x.C["a"].Take()
				x.C["b"].Take()
			},
			Fire: func(x *Ctx) {
				for _, n := range []string{"a", "b"} {
					rid := x.C[n].NextReqID()
					x.Vars[n] = rid
					x.C[n].SendMsg(&odalpb.AssetInstanceAddRequest{Type: odalpb.MsgType_MSG_TYPE_ODAL_ASSET_INSTANCE_ADD_REQUEST, Timestamp: x.W.NextTS(), RequestId: rid, EntityId: x.Vars["e"+n].(uint32), AssetId: "asset-" + n})
				}
			},
			Check: func(x *Ctx) {
				ids := map[uint32]string{}
				for _, n := range []string{"a", "b"} {
					ok := false
					for _, r := range x.C[n].Take() {
						if m, is := r.Msg.(*odalpb.AssetInstanceAddResponse); is && m.RequestId == x.Vars[n].(uint32) {
							ok = true
							if o, dup := ids[m.AssetInstanceId]; dup {
								x.fail("id", "asset-instance-id-issued-twice", "asset adds of %s and %s were both given instance id %d", o, n, m.AssetInstanceId)
							}
							ids[m.AssetInstanceId] = n
						}
					}
					if !ok {
						x.fail("answer", "asset-unanswered", "asset add of %s not answered", n)
					}
				}
			},
			Final: finalInvariants,
		}
	})
}

// probeIDs joins the session of member n with a probe and checks that entity
// ids in the state are pairwise distinct.
func probeIDs(x *Ctx, n string) {
	x.conn("probe")
	pj := join(x.W, x.C["probe"], x.J[n].SessionID)
	if !pj.OK || pj.State == nil {
		x.fail("probe", "probe-cannot-join", "probe refused: %v", pj.Code)
		return
	}
	seen := map[uint32]bool{}
	for _, e := range pj.State.Entities {
		if seen[e.Id] {
			x.fail("id", "entity-id-twice-in-state", "entity id %d appears twice in SESSION_STATE", e.Id)
		}
		seen[e.Id] = true
	}
	x.Vars["probeEntities"] = len(pj.State.Entities)
}

// ---- the id source under concurrency ---------------------------------------------

func runIDThreads(j *check.Job, p idgenParams) *check.Result {
	res := &check.Result{Extra: map[string]any{}, Bound: p.Bound}
	type scen struct {
		name    string
		prefix  []idop
		threads [][]idop // per thread: 0 = New, 1 = Reuse(own most recent id)
	}
	scens := []scen{
		{"new||new", nil, [][]idop{{0}, {0}}},
		{"new,new||new,new", nil, [][]idop{{0, 0}, {0, 0}}},
		{"new||new||new", nil, [][]idop{{0}, {0}, {0}}},
		{"prefix(new,new,reuse,reuse) new||new", []idop{0, 0, 1, 1}, [][]idop{{0}, {0}}},
		{"new,reuse||new,reuse", nil, [][]idop{{0, 1}, {0, 1}}},
		{"new,reuse,new||new", nil, [][]idop{{0, 1, 0}, {0}}},
	}
	var deadline time.Time
	if j.BudgetS > 0 {
		deadline = time.Now().Add(time.Duration(j.BudgetS) * time.Second)
	}
	res.Exhaustive = true
	seen := map[string]bool{}
	total := map[string]bool{}
	for _, sc := range scens {
		sc := sc
		run := func(ch vrt.Chooser) explore.Outcome {
			s := vrt.NewSched(ch)
			vrt.ResetClasses()
			vrt.S = s
			var g models.SequentialIDGenerator
			held := map[uint32]bool{}
			var viol []explore.Violation
			var log []string
			// sequential prefix
			s.NoPreempt = true
			s.Spawn("prefix", func() {
				var mine []uint32
				for _, op := range sc.prefix {
					if op == 0 {
						id := g.New()
						held[id] = true
						mine = append(mine, id)
					} else if len(mine) > 0 {
						x := mine[0]
						mine = mine[1:]
						g.Reuse(x)
						delete(held, x)
					}
				}
			})
			s.RunQuiescent()
			s.NoPreempt = false
			for ti, ops := range sc.threads {
				ti, ops := ti, ops
				s.Spawn(fmt.Sprintf("t%d", ti), func() {
					var mine []uint32
					for _, op := range ops {
						if op == 0 {
							id := g.New()
							log = append(log, fmt.Sprintf("t%d:new=%d", ti, id))
							if held[id] {
								viol = append(viol, explore.Violation{Oracle: "id-source", Detail: "concurrent-new-returns-held-id", Info: fmt.Sprintf("%s: New returned %d which is held: %v", sc.name, id, log)})
							}
							held[id] = true
							mine = append(mine, id)
						} else if len(mine) > 0 {
							x := mine[len(mine)-1]
							mine = mine[:len(mine)-1]
							delete(held, x)
							g.Reuse(x)
						}
					}
				})
			}
			s.RunQuiescent()
			if st := stuck(s); len(st) > 0 {
				viol = append(viol, explore.Violation{Oracle: "deadlock", Detail: "id-source", Info: fmt.Sprint(st)})
				s.Abort()
			}
			s.Join()
			vrt.S = nil
			sort.Strings(log)
			return explore.Outcome{Points: s.Points, Steps: s.Steps, Violations: viol, Key: fmt.Sprint(log)}
		}
		st := explore.Explore(run, explore.Config{Bound: p.Bound, Deadline: deadline})
		res.Executions += st.Executions
		res.States += st.Executions
		res.Transitions += st.Points
		res.Steps += st.Steps
		if !st.Exhaustive {
			res.Exhaustive = false
			res.CapHit = st.CapHit
		}
		for k := range st.Outcomes {
			total[sc.name+k] = true
		}
		for _, f := range st.Found {
			if !seen[f.Detail] {
				seen[f.Detail] = true
				res.Violations = append(res.Violations, check.Violation{Scenario: j.Name, Oracle: f.Oracle, Detail: f.Detail, Info: f.Info})
			}
		}
	}
	res.Outcomes = len(total)
	res.Samples = []any{map[string]any{"scenarios": []string{scens[0].name, scens[1].name, scens[2].name, scens[3].name, scens[4].name, scens[5].name}}}
	return res
}
