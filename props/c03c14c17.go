package props

import (
	"encoding/json"
	"fmt"

	"verif/check"
	"verif/s1"
	"verif/world"
)

// ---- C14: custom messages, bounded-exhaustive inputs ------------------------------

type c14Params struct {
	Members int `json:"members"`
	MaxLen  int `json:"max_len,omitempty"` // longest recipient list enumerated completely (default 3)
}

func init() {
	check.Register("c14", func(j *check.Job) *check.Result {
		var p c14Params
		json.Unmarshal(j.Params, &p)
		res := &check.Result{Exhaustive: true, Extra: map[string]any{"members": p.Members}}
		// world: session X with p.Members members (c0 = sender), session Y = {cy0, cy1, cy2}
		n := p.Members + 3
		r := s1.NewRunner(world.Config{}, n)
		defer r.Finish()
		r.Do(s1.Ev{K: "join", C: 0, X: -1})
		for i := 1; i < p.Members; i++ {
			r.Do(s1.Ev{K: "join", C: i, X: 0})
		}
		y0 := p.Members
		r.Do(s1.Ev{K: "join", C: y0, X: -1})
		ytok := len(r.M.Sessions) - 1
		for i := 1; i < 3; i++ {
			r.Do(s1.Ev{K: "join", C: y0 + i, X: ytok})
		}
		// make sure Y has a participant id that X does not have
		if p.Members >= 3 {
			r.Do(s1.Ev{K: "close", C: y0 + 1})
			r.Do(s1.Ev{K: "join", C: y0 + 1, X: ytok}) // would need a fresh connection; closed ones cannot rejoin: ignored by the model
		}
		// recipient alphabet: every member of X (incl. the sender), an id nobody
		// has, an id valid only in Y
		var alpha []uint32
		for i := 0; i < p.Members; i++ {
			alpha = append(alpha, r.M.Conns[i].PID)
		}
		alpha = append(alpha, s1.NeverID)
		onlyY := uint32(0)
		for _, pid := range r.M.Sessions[ytok].Members {
			if _, in := memberHas(r.M.Sessions[0], pid); !in {
				onlyY = pid
			}
		}
		if onlyY != 0 {
			alpha = append(alpha, onlyY)
		}
		var lists [][]uint32
		lists = append(lists, nil)
		for _, a := range alpha {
			lists = append(lists, []uint32{a})
			for _, b := range alpha {
				lists = append(lists, []uint32{a, b})
				for _, c := range alpha {
					lists = append(lists, []uint32{a, b, c})
					if p.MaxLen >= 4 {
						for _, d := range alpha {
							lists = append(lists, []uint32{a, b, c, d})
							if p.MaxLen >= 5 {
								for _, e := range alpha {
									lists = append(lists, []uint32{a, b, c, d, e})
								}
							}
						}
					}
				}
			}
		}
		lengths := []int{0, 1, 10236, 10237, 10238, 10239, 10240, 10241, 10242, 10243, 10244}
		cases := 0
		before := len(r.V)
		run := func(p []uint32, n, b int) {
			r.Do(s1.Ev{K: "custom", C: 0, Ex: true, P: p, N: n, B: b})
			cases++
		}
		for _, l := range lists {
			for _, n := range []int{1, 10240, 10241} {
				run(l, n, 2)
			}
		}
		for _, l := range lists {
			if len(l) > 1 {
				continue
			}
			for _, n := range lengths {
				for b := 0; b < 4; b++ {
					run(l, n, b)
				}
			}
		}
		// a long recipient list with a body just under the limit
		long := make([]uint32, 0, 600)
		for i := 0; i < 600; i++ {
			long = append(long, alpha[i%len(alpha)])
		}
		run(long, 10000, 2)
		run(long, 10240, 2)
		r.Probe()
		seen := map[string]bool{}
		for _, v := range r.V[before:] {
			if !seen[v.Oracle+v.Detail] {
				seen[v.Oracle+v.Detail] = true
				res.Violations = append(res.Violations, check.Violation{Scenario: j.Name, Oracle: v.Oracle, Detail: v.Detail, Info: v.Info})
			}
		}
		res.Executions = cases
		res.States = cases
		res.Transitions = cases
		res.Steps = r.W.S.Steps
		res.Outcomes = len(lists) * 2
		res.Samples = []any{map[string]any{"recipients": []uint32{alpha[0], s1.NeverID, alpha[len(alpha)-1]}, "body_len": 10240, "pattern": "ramp"}}
		res.Extra["recipient_lists"] = len(lists)
		res.Extra["recipient_alphabet"] = alpha
		res.Extra["body_lengths"] = lengths
		return res
	})
	check.RegisterProp("C14", func(tier string) []check.Job {
		var jobs []check.Job
		for m := 1; m <= 4; m++ {
			ml := 4
			if tier == "thorough" {
				ml = 5
			}
			p, _ := json.Marshal(c14Params{Members: m, MaxLen: ml})
			jobs = append(jobs, check.Job{Kind: "c14", Name: fmt.Sprintf("IN:custom-%dmembers", m), Params: p})
		}
		d := 5
		if tier == "thorough" {
			d = 6
		}
		jobs = append(jobs, s1job("two-sessions", d-2, []string{"C14"}, 4, 300))
		jobs = append(jobs, floodResumeJob())
		return jobs
	}, check.PropInfo{
		Rule:        "IN: full product of recipient lists (all ordered lists of length <=4 (thorough: <=5) over {every member incl. the sender, an unknown id, an id valid only in another session}, plus a 600-entry list) x body lengths {0,1,10236..10244} x byte patterns {zeros, 0xff, ramp, protobuf-looking}, in sessions of 1-4 members with a second session alive; every case executed on the real server and compared with the model (recipients = named ∩ members − sender, once each; body identical; TOO_LARGE iff > 10240); plus a flood: 600 messages relayed to a member that stops reading and resumes - none lost, none reordered",
		Assumptions: s1Assumptions,
	})

	// ---- C03 ---------------------------------------------------------------------
	check.RegisterProp("C03", func(tier string) []check.Job {
		d, ld, od := 4, 6, 7
		if tier == "thorough" {
			d, ld, od = 6, 7, 9
		}
		return []check.Job{
			s1job("own-switch", od, []string{"C03"}, 3, 600),
			s1job("two-sessions", d, []string{"C03"}, 10, 600),
			s1job("lifecycle", ld, []string{"C03", "C07"}, 3, 600),
			s1job("entities", ld, []string{"C03", "C01", "C02"}, 3, 600),
			// a session id recycled while its old session is still being removed
			s2job("c07-lastleave-vs-create", 2, 300),
			s2job("c07-create-vs-create", 1, 300),
			s2job("c07-join-lastleave-create", 1, 300),
		}
	}, check.PropInfo{
		Rule:        s1Rule + " C03: the reference model has no cross-session channel by construction, so anything a member of one session receives because of traffic in another, or any state change there, is a mismatch; families with coinciding per-session ids, raw ids valid only in the other session, unjoined connections and reused session ids.",
		Assumptions: s1Assumptions,
	})

	// ---- C17: feature flags ----------------------------------------------------------
	check.Register("c17", runC17)
	check.RegisterProp("C17", func(tier string) []check.Job {
		var jobs []check.Job
		nsh := 16
		for i := 0; i < nsh; i++ {
			p, _ := json.Marshal(c17Params{Shard: i, Shards: nsh})
			jobs = append(jobs, check.Job{Kind: "c17", Name: "IN:flag-subsets", Params: p})
		}
		// what keeps a connection alive must not depend on the flags: a silent client is
		// disconnected after the idle timeout whether or not relays are delivered to it
		// (the flag-free run of C08's idle scenarios at the peer point)
		pidle, _ := json.Marshal(robustParams{Point: "peer", Set: "idle"})
		jobs = append(jobs, check.Job{Kind: "c08", Name: "IN:idle@peer", Params: pidle, CrashIsViolation: true})
		if tier == "thorough" {
			for _, f := range allFlags {
				jobs = append(jobs, s1flagjob("entities", 6, []string{f}), s1flagjob("components", 5, []string{f}))
			}
			jobs = append(jobs, s1flagjob("entities", 6, allFlags), s1flagjob("components", 5, allFlags), s1flagjob("modules", 5, allFlags))
		} else {
			for _, f := range allFlags {
				jobs = append(jobs, s1flagjob("entities", 5, []string{f}), s1flagjob("components", 4, []string{f}))
			}
			jobs = append(jobs, s1flagjob("entities", 5, allFlags), s1flagjob("components", 4, allFlags))
		}
		return jobs
	}, check.PropInfo{
		Rule:        "all 1024 subsets of the ten DISABLE_* flags (plus two unknown names in half of them) x a covering set of histories (every message class produced, incl. departures, oversized custom messages, modules); per connection the stream must equal the flag-free expectation of the reference model minus the classes the set flags name, the same requests succeed (responses compared) and a flag-free probe is handed the model's state; plus S1 families under single flags and the full set",
		Assumptions: s1Assumptions,
	})
}

func memberHas(s *s1.MSession, pid uint32) (int, bool) {
	for c, p := range s.Members {
		if p == pid {
			return c, true
		}
	}
	return 0, false
}

var allFlags = []string{
	"DISABLE_SESSION_STATE", "DISABLE_PARTICIPANT_JOIN_BROADCAST", "DISABLE_PARTICIPANT_LEAVE_BROADCAST",
	"DISABLE_ENTITY_ADD_BROADCAST", "DISABLE_ENTITY_DELETE_BROADCAST", "DISABLE_ENTITY_UPDATE_POSE_BROADCAST",
	"DISABLE_CUSTOM_MESSAGE_BROADCAST", "DISABLE_ENTITY_COMPONENT_ADD_BROADCAST", "DISABLE_ENTITY_COMPONENT_UPDATE_BROADCAST",
	"DISABLE_ENTITY_COMPONENT_DELETE_BROADCAST",
}

type c17Params struct {
	Shard  int `json:"shard"`
	Shards int `json:"shards"`
}

// covering histories: every message class at least twice, under departures
// and with modules (family "flags" below provides config and connections).
var c17Histories = [][]s1.Ev{
	{{K: "join", C: 0, X: -1}, {K: "join", C: 1, X: 0}, {K: "eadd", C: 0, X: 0}, {K: "pose", C: 0, X: 0}, {K: "tick"}, {K: "custom", C: 0, X: 0}, {K: "tadd", C: 0, X: 0}, {K: "sub", C: 1, X: 0}, {K: "cadd", C: 0, X: 0, Y: 0}, {K: "cupd", C: 0, X: 0, Y: 0}, {K: "tick"}, {K: "cdel", C: 0, X: 0, Y: 0}, {K: "edel", C: 0, X: 0}, {K: "close", C: 1}},
	{{K: "join", C: 0, X: -1}, {K: "join", C: 1, X: 0}, {K: "join", C: 2, X: 0}, {K: "eadd", C: 1, X: 0}, {K: "eadd", C: 1, X: 1}, {K: "tadd", C: 1, X: 0}, {K: "sub", C: 0, X: 0}, {K: "cadd", C: 1, X: 0, Y: 0}, {K: "close", C: 1}, {K: "custom", C: 0, X: 1}, {K: "custom", C: 2, X: 0, Y: 2}, {K: "custom", C: 2, X: 0, Y: 1}},
	{{K: "join", C: 0, X: -1}, {K: "join", C: 1, X: 0}, {K: "eadd", C: 1, X: 0}, {K: "action", C: 1, X: 0, Y: 0, Z: 1}, {K: "asset", C: 1, X: 0, Y: 1}, {K: "join", C: 1, X: -1}, {K: "join", C: 2, X: 0}, {K: "eadd", C: 2, X: 0}, {K: "pose", C: 2, X: 1}, {K: "tick"}, {K: "edel", C: 0, X: 1}, {K: "edel", C: 2, X: 1}},
	{{K: "join", C: 0, X: -1}, {K: "eadd", C: 0, X: 1}, {K: "tadd", C: 0, X: 0}, {K: "cadd", C: 0, X: 0, Y: 0}, {K: "join", C: 1, X: 0}, {K: "sub", C: 1, X: 0}, {K: "cupd", C: 0, X: 0, Y: 0}, {K: "tick"}, {K: "unsub", C: 1, X: 0}, {K: "cupd", C: 0, X: 0, Y: 0}, {K: "tick"}, {K: "close", C: 0}, {K: "join", C: 2, X: 0}, {K: "clist", C: 2, X: 0}},
}

func init() {
	s1.Families["flags"] = &s1.Family{Name: "flags", NConn: 3, Cfg: world.Config{Modules: []string{"vikja", "odal"}}, Tags: []string{"C17"}, Enabled: func(*s1.Model) []s1.Ev { return nil }}
}

func runC17(j *check.Job) *check.Result {
	var p c17Params
	json.Unmarshal(j.Params, &p)
	res := &check.Result{Exhaustive: true, Extra: map[string]any{}}
	f := s1.Families["flags"]
	seen := map[string]bool{}
	if j.Replay != nil {
		var rp struct {
			Flags []string
			H     int
		}
		json.Unmarshal(j.Replay.History, &rp)
		hr := s1.RunHistory(f, c17Histories[rp.H], rp.Flags, true)
		for _, l := range hr.Trace {
			fmt.Println("  ", l)
		}
		for _, v := range hr.Viols {
			res.Violations = append(res.Violations, check.Violation{Scenario: j.Name, Oracle: v.Oracle, Detail: v.Detail, Info: v.Info})
		}
		res.Executions = 1
		return res
	}
	for mask := 0; mask < 1024; mask++ {
		if mask%p.Shards != p.Shard {
			continue
		}
		var flags []string
		for i, fl := range allFlags {
			if mask&(1<<i) != 0 {
				flags = append(flags, fl)
			}
		}
		if mask%2 == 1 {
			flags = append(flags, "DISABLE_NOTHING_KNOWN", "disable_session_state")
		}
		for hi, h := range c17Histories {
			hr := s1.RunHistoryOpt(f, h, flags, false, true)
			res.Executions++
			res.Transitions += len(h)
			res.Steps += hr.Steps
			for _, v := range hr.Viols {
				sig := v.Oracle + "|" + v.Detail
				if !seen[sig] {
					seen[sig] = true
					rb, _ := json.Marshal(map[string]any{"Flags": flags, "H": hi})
					res.Violations = append(res.Violations, check.Violation{Scenario: j.Name, Oracle: v.Oracle, Detail: v.Detail, Info: fmt.Sprintf("flags=%v history#%d: %s", flags, hi, v.Info), Replay: &check.Replay{History: rb}})
				}
			}
		}
		res.States++
	}
	res.Outcomes = res.States
	res.Samples = []any{map[string]any{"flags": []string{allFlags[4], allFlags[6]}, "history": fmt.Sprint(c17Histories[1])}}
	return res
}

func s1flagjob(family string, depth int, flags []string) check.Job {
	p, _ := json.Marshal(S1Params{Family: family, Depth: depth, Flags: flags, Tags: []string{"C17"}, Workers: 2})
	name := "S1:" + family + "+" + fmt.Sprint(len(flags)) + "flags"
	if len(flags) == 1 {
		name = "S1:" + family + "+" + flags[0]
	}
	return check.Job{Kind: "s1", Name: name, Params: p, BudgetS: 600}
}
