package props

import (
	"encoding/json"
	"fmt"
	"sort"
	"strings"
	"time"

	"github.com/aukilabs/hagall-common/messages/hagallpb"

	"verif/check"
	"verif/explore"
	"verif/vrt"
	"verif/world"
)

// ---- C08 (d): placement of client closes, stalls, errors and timers (S3) ------------------

type faultScript struct {
	Acts    []string
	MustEnd bool // the offending connection must have been ended by the end
}

var faultScripts = map[string]faultScript{
	"close-vs-relay":             {[]string{"p:custom", "o:close"}, true},
	"close-with-request-pending": {[]string{"o:eadd", "o:close"}, true},
	"write-error":                {[]string{"o:wrerr", "p:custom"}, true},
	"read-error-vs-write-error":  {[]string{"o:rderr", "o:wrerr", "p:custom"}, true},
	"read-error-vs-request":      {[]string{"o:eadd", "o:rderr"}, true},
	"peer-leaves-vs-close":       {[]string{"p:close", "o:close"}, true},
	"stall-resume-close":         {[]string{"o:stall", "p:custom", "p:custom", "o:resume", "o:close"}, true},
	"stall-then-close":           {[]string{"o:stall", "p:custom", "o:close"}, true},
	"sync-clock-vs-close":        {[]string{"sync", "o:close"}, true},
	"sync-clock-vs-request":      {[]string{"o:eadd", "sync", "o:ping"}, false},
	"failing-request-vs-close":   {[]string{"o:badreceipt", "o:close"}, true},
	"two-failing-vs-relay":       {[]string{"o:badreceipt", "o:badreceipt", "p:custom"}, true},
	// a client that stops reading and never comes back
	"stall-forever-idle": {[]string{"o:stall", "p:custom", "idle"}, true},
	// floods
	"flood-own-requests-stalled": {[]string{"o:stall", "o:ping*600", "o:close"}, true},
	"flood-relays-to-stalled":    {[]string{"o:stall", "p:custom*520", "idle"}, true},
	// ... and one that does come back: back-pressure may delay, never lose or reorder
	"flood-relays-then-resume": {[]string{"o:stall", "p:custom*600", "o:resume"}, false},
}

func runFaults(name string, ch vrt.Chooser) explore.Outcome {
	fs := faultScripts[name]
	r := newRobustWorldOpt("peer", ch, true)
	w, s := r.w, r.w.S
	o, p := r.o, r.p
	var env []func()
	customs := 0
	for _, a := range fs.Acts {
		a := a
		n := 1
		if i := strings.Index(a, "*"); i > 0 {
			fmt.Sscanf(a[i+1:], "%d", &n)
			a = a[:i]
		}
		env = append(env, func() {
			for i := 0; i < n; i++ {
				switch a {
				case "o:close":
					o.Close()
				case "p:close":
					p.Close()
				case "o:rderr":
					o.Pipe.InjectReadError()
				case "o:wrerr":
					o.Pipe.InjectWriteError()
				case "o:stall":
					o.Pipe.SetStalled(true)
				case "o:resume":
					o.Pipe.SetStalled(false)
				case "o:eadd":
					o.SendMsg(&hagallpb.EntityAddRequest{Type: hagallpb.MsgType_MSG_TYPE_ENTITY_ADD_REQUEST, Timestamp: w.NextTS(), RequestId: o.NextReqID()})
				case "o:ping":
					o.SendMsg(&hagallpb.Request{Type: hagallpb.MsgType_MSG_TYPE_PING_REQUEST, Timestamp: w.NextTS(), RequestId: o.NextReqID()})
				case "o:badreceipt":
					o.SendMsg(&hagallpb.ReceiptRequest{Type: hagallpb.MsgType_MSG_TYPE_RECEIPT_REQUEST, Timestamp: w.NextTS(), RequestId: o.NextReqID()})
				case "p:custom":
					p.SendMsg(&hagallpb.CustomMessage{Type: hagallpb.MsgType_MSG_TYPE_CUSTOM_MESSAGE, Timestamp: w.NextTS(), Body: []byte(fmt.Sprintf("x%d", customs))})
					customs++
				case "sync":
					s.Advance(w.Cfg.SyncInterval)
				case "idle":
					// the peer and the witness keep talking; only the offender is silent
					for k := 0; k < 3; k++ {
						s.Advance(w.Cfg.IdleTimeout / 3)
						for _, c := range []*world.Client{r.v, p} {
							if c != nil && !c.Closed {
								c.SendMsg(&hagallpb.Request{Type: hagallpb.MsgType_MSG_TYPE_PING_REQUEST, Timestamp: w.NextTS(), RequestId: c.NextReqID()})
							}
						}
					}
					s.Advance(time.Second)
				default:
					panic("unknown fault action " + a)
				}
			}
		})
	}
	s.NoPreempt = false
	s.ForgetLastRun()
	s.RunScript(env)
	s.NoPreempt = true
	// drop the pings' answers and the clock messages from the logs the judge looks at
	r.v.Take()
	if p != nil {
		keepNonPing(p)
	}
	if name == "flood-relays-then-resume" {
		// every relay reaches the member that was slow, once, in the order sent
		next, extra := 0, 0
		for _, m := range o.All() {
			if cm, ok := m.Msg.(*hagallpb.CustomMessageBroadcast); ok {
				if string(cm.Body) == fmt.Sprintf("x%d", next) {
					next++
				} else {
					extra++
				}
			}
		}
		if next != customs || extra != 0 {
			r.x.fail("relay", fmt.Sprintf("custom:lost-or-reordered-under-back-pressure:%d-of-%d", next, customs), "a member stopped reading while %d custom messages were relayed to it and then resumed: it received %d of them in order (%d out of order or repeated)", customs, next, extra)
		}
	}
	r.extraDeletes = strings.Count(strings.Join(fs.Acts, " "), "o:eadd")
	r.judge("script "+name, fs.MustEnd)
	r.finish("script " + name)
	return explore.Outcome{Points: s.Points, Steps: s.Steps, HitCap: s.HitCap, Violations: r.x.V, Key: fmt.Sprintf("%v/%v/%d", o.Pipe.ServerClosed(), o.HandlerReturned, len(o.All()))}
}

type faultParams struct {
	Script   string `json:"script"`
	Bound    int    `json:"bound"`
	ShardIdx int    `json:"shard_idx,omitempty"`
	ShardN   int    `json:"shard_n,omitempty"`
}

func init() {
	check.Register("c08s3", func(j *check.Job) *check.Result {
		var p faultParams
		json.Unmarshal(j.Params, &p)
		res := &check.Result{Bound: p.Bound, Extra: map[string]any{"script": faultScripts[p.Script].Acts}}
		if j.Replay != nil {
			out := runFaults(p.Script, &explore.FixedChooser{Choices: j.Replay.Choices})
			for _, v := range out.Violations {
				fmt.Println("   !!", v.Oracle, v.Detail, v.Info)
				res.Violations = append(res.Violations, check.Violation{Scenario: j.Name, Oracle: v.Oracle, Detail: v.Detail, Info: v.Info})
			}
			res.Executions, res.Exhaustive = 1, true
			return res
		}
		// warm-up: process-wide caches of the production decoration fill on first use
		runFaults(p.Script, &explore.FixedChooser{})
		cfg := explore.Config{Bound: p.Bound, ShardIdx: p.ShardIdx, ShardN: p.ShardN}
		if j.BudgetS > 0 {
			cfg.Deadline = time.Now().Add(time.Duration(j.BudgetS) * time.Second)
		}
		st := explore.Explore(func(ch vrt.Chooser) explore.Outcome { return runFaults(p.Script, ch) }, cfg)
		res.Executions, res.States, res.Transitions, res.Steps = st.Executions, st.Executions, st.Points+st.Executions, st.Steps
		res.Outcomes, res.Exhaustive, res.CapHit, res.MaxDepth = len(st.Outcomes), st.Exhaustive, st.CapHit, st.MaxPoints
		res.BoundDone = &st.BoundDone

		if len(st.Diverged) > 0 {
			res.EngineError = "replay divergence: " + st.Diverged[0]
		}
		res.Extra["executions_by_deviations"] = st.ByCost
		seen := map[string]bool{}
		for _, f := range st.Found {
			if !seen[f.Oracle+f.Detail] {
				seen[f.Oracle+f.Detail] = true
				res.Violations = append(res.Violations, check.Violation{Scenario: j.Name, Oracle: f.Oracle, Detail: f.Detail, Info: f.Info, Replay: &check.Replay{Choices: trimZeros(f.Prefix)}})
			}
		}
		res.Samples = []any{map[string]any{"script": faultScripts[p.Script].Acts, "bound": p.Bound}}
		return res
	})
	check.WrapPlanner("C08", func(tier string, jobs []check.Job) []check.Job {
		b, budget := 1, 200
		if tier == "thorough" {
			b, budget = 2, 1500
		}
		// sequences of ordinary ground-plane samples (the grid BFS of C20): a panic in
		// the index is a crash any client can cause
		for i := 0; i < 4; i++ {
			p1, _ := json.Marshal(gridParams{Depth: 2, Alphabet: "small", Shard: i, Shards: 4})
			p2, _ := json.Marshal(gridParams{Depth: 3, Alphabet: "layers", Shard: i, Shards: 4})
			jobs = append(jobs, check.Job{Kind: "grid", Name: "GRID:small", Params: p1, BudgetS: budget}, check.Job{Kind: "grid", Name: "GRID:layers", Params: p2, BudgetS: budget})
		}
		var names []string
		for n := range faultScripts {
			names = append(names, n)
		}
		sort.Strings(names)
		for _, n := range names {
			bb := b
			if strings.HasPrefix(n, "flood") {
				bb = 0 // long executions: default schedule only (the flood itself is the point)
			}
			if tier != "thorough" && (strings.Contains(n, "sync") || strings.Contains(n, "idle")) {
				bb = 0 // timers wake every connection: the interleavings of all of them are thorough-tier work
			}
			shards := 1
			if tier == "thorough" && bb > 0 {
				shards = 8 // the subtrees below the first-level alternatives, dealt round-robin to worker processes
			}
			bud := budget
			if tier == "thorough" && (strings.Contains(n, "sync") || strings.Contains(n, "idle")) {
				// timers wake every connection: two deviations do not complete even sharded; the
				// evidence then states the bound that did (1) - no point in burning the full budget
				bud = 600
			}
			for i := 0; i < shards; i++ {
				p, _ := json.Marshal(faultParams{Script: n, Bound: bb, ShardIdx: i, ShardN: shards})
				jobs = append(jobs, check.Job{Kind: "c08s3", Name: "S3:fault-" + n, Params: p, BudgetS: bud, CrashIsViolation: true})
			}
		}
		return jobs
	})
}

// floodResumeJob: the back-pressure script on its own (C14, C02).
func floodResumeJob() check.Job {
	p, _ := json.Marshal(faultParams{Script: "flood-relays-then-resume", Bound: 0})
	return check.Job{Kind: "c08s3", Name: "S3:fault-flood-relays-then-resume", Params: p, BudgetS: 300, CrashIsViolation: true}
}

func init() {
	check.WrapPlanner("C02", func(tier string, jobs []check.Job) []check.Job { return append(jobs, floodResumeJob()) })
}
