package props

import (
	"encoding/json"
	"fmt"
	"math"
	"sort"
	"strings"
	"time"

	"github.com/aukilabs/hagall-common/messages/hagallpb"
	"github.com/ethereum/go-ethereum/common/hexutil"
	"github.com/ethereum/go-ethereum/crypto"
	"google.golang.org/protobuf/proto"

	"verif/check"
	"verif/explore"
	"verif/vrt"
	"verif/world"
)

// ---- C18: signed latency -----------------------------------------------------------

const c18Key = "4c0883a69102937d6231471b5dbb6204fe5129617082792ae468d01a3f362318"

// lev is one client behaviour.
type lev struct {
	K string `json:"k"` // start, cur, again, old, unknown, switch
	N uint32 `json:"n,omitempty"`
	W int    `json:"w,omitempty"` // index into c18Wallets (1 = empty wallet)
}

// wallet strings: the report must name the wallet exactly as it was given
// (a mixed-case EIP-55 address, surrounding blanks, non-ASCII); an empty one
// is refused. A blank-only wallet is left out: the statement does not say
// whether that is "a wallet address".
var c18Wallets = []string{"0xw", "", "0x52908400098527886E0F7030069857D2E4169EE7", " 0xw ", "0xDE709F2102306220921060314715629080E2fb77\t", "wallet-\u00fc"}

func (e lev) String() string {
	if e.K == "start" {
		return fmt.Sprintf("start(%d,w%d)", e.N, e.W)
	}
	return e.K
}

// steps of the virtual clock taken before the i-th event (distinct, so that
// every round has its own latency and ping ids never collide)
var c18Steps = []time.Duration{time.Millisecond, 3 * time.Microsecond, 7 * time.Microsecond, time.Microsecond, 20 * time.Microsecond, 2 * time.Millisecond, 11 * time.Microsecond, 5 * time.Microsecond}

type measurement struct {
	rid      uint32
	n        uint32
	wallet   string
	uuid     string
	issued   []uint32           // ping ids in issue order
	sentAt   map[uint32]int64   // virtual ns
	latency  map[uint32]float32 // µs, once answered
	answered []uint32
	done     bool
}

// runLatency plays one behaviour sequence; joined tells whether the client
// joins a session first.
func runLatency(seq []lev, joined bool, ch vrt.Chooser, mapOrder bool) (out explore.Outcome) {
	key, _ := crypto.HexToECDSA(c18Key)
	w := world.New(world.Config{PrivateKey: key, ClientID: "client-7"}, ch)
	s := w.S
	s.EagerLabels = []string{eagerPrefix}
	s.NoPreempt = true
	s.ExploreMapOrder = mapOrder
	x := &Ctx{W: w, C: map[string]*world.Client{}, J: map[string]JoinInfo{}, Vars: map[string]any{}}
	fail := func(oracle, detail, f string, a ...any) {
		x.V = append(x.V, explore.Violation{Oracle: oracle, Detail: detail, Info: fmt.Sprintf(f, a...)})
	}
	x.conn("a")
	c := x.C["a"]
	if joined {
		x.join("a", "")
	}
	var cur *measurement
	var all []*measurement
	var trace []string
	closed := false
	for i, e := range seq {
		if closed {
			break
		}
		s.Advance(c18Steps[i%len(c18Steps)])
		now := s.Clock().NowNS()
		var sentID uint32
		var rid uint32
		switch e.K {
		case "start":
			rid = c.NextReqID()
			wallet := c18Wallets[e.W]
			c.SendMsg(&hagallpb.SignedLatencyRequest{Type: hagallpb.MsgType_MSG_TYPE_SIGNED_LATENCY_REQUEST, Timestamp: w.NextTS(), RequestId: rid, IterationCount: e.N, WalletAddress: wallet})
		case "switch":
			x.join("a", "")
			// a new participant: a measurement in progress belonged to the old one
			cur = nil
		default:
			// a ping response
			switch e.K {
			case "cur":
				if cur != nil && len(cur.issued) > len(cur.answered) && !cur.done {
					sentID = cur.issued[len(cur.issued)-1]
				} else {
					sentID = 0xdead0001
				}
			case "again":
				if cur != nil && len(cur.answered) > 0 {
					sentID = cur.answered[len(cur.answered)-1]
				} else {
					sentID = 0xdead0002
				}
			case "old":
				if cur != nil && len(cur.answered) > 1 {
					sentID = cur.answered[0]
				} else if len(all) > 1 && len(all[0].issued) > 0 {
					sentID = all[0].issued[0] // an id of an abandoned / earlier measurement
				} else {
					sentID = 0xdead0003
				}
			case "unknown":
				sentID = 0xdeadbeef
			}
			c.SendMsg(&hagallpb.Response{Type: hagallpb.MsgType_MSG_TYPE_PING_RESPONSE, Timestamp: w.NextTS(), RequestId: sentID})
		}
		w.Run()
		got := c.Take()
		var kinds []string
		var pings []uint32
		var errs []*hagallpb.ErrorResponse
		var finals []*hagallpb.SignedLatencyResponse
		for _, r := range got {
			switch m := r.Msg.(type) {
			case *hagallpb.Response:
				if r.Type == 38 {
					pings = append(pings, m.RequestId)
					kinds = append(kinds, "PING_REQ")
				}
			case *hagallpb.ErrorResponse:
				errs = append(errs, m)
				kinds = append(kinds, fmt.Sprintf("ERR%d", m.Code))
			case *hagallpb.SignedLatencyResponse:
				finals = append(finals, m)
				kinds = append(kinds, "SIGNED")
			default:
				if r.Type != 4 && r.Type != 2 {
					kinds = append(kinds, fmt.Sprint(r.Type))
				}
			}
		}
		trace = append(trace, fmt.Sprintf("%v->%v", e, kinds))
		if c.Pipe.ServerClosed() {
			closed = true
		}
		inSession := len(x.J) > 0
		switch e.K {
		case "start":
			okStart := inSession && e.N >= 3 && e.N <= 50 && c18Wallets[e.W] != ""
			if !okStart {
				if len(pings) > 0 || len(finals) > 0 {
					fail("start", "measurement-started-when-it-must-not", "start(n=%d, wallet=%v, joined=%v) started a measurement", e.N, c18Wallets[e.W] != "", inSession)
				}
				if len(errs) != 1 || errs[0].RequestId != rid {
					fail("answer", "start-refusal-answers", "refused start answered with %v", kinds)
				} else {
					want := int32(400)
					if !inSession {
						want = 401
					}
					if int32(errs[0].Code) != want && !(!inSession && errs[0].Code == 460) {
						fail("answer", "start-refusal-code", "start(n=%d, wallet=%v, joined=%v) refused with code %d", e.N, c18Wallets[e.W] != "", inSession, errs[0].Code)
					}
				}
				continue
			}
			if len(pings) != 1 || len(errs) > 0 || len(finals) > 0 {
				fail("start", "start-not-answered-with-first-ping", "accepted start answered with %v", kinds)
				continue
			}
			cur = &measurement{rid: rid, n: e.N, wallet: c18Wallets[e.W], uuid: x.J["a"].UUID, sentAt: map[uint32]int64{}, latency: map[uint32]float32{}}
			all = append(all, cur)
			cur.issued = append(cur.issued, pings[0])
			cur.sentAt[pings[0]] = now
		case "switch":
		default:
			legit := cur != nil && !cur.done && e.K == "cur" && sentID == cur.issued[len(cur.issued)-1] && len(cur.issued) > len(cur.answered)
			if !legit {
				// unknown, already answered, replayed or no measurement: refused, nothing advances
				if len(pings) > 0 || len(finals) > 0 {
					fail("advance", "illegitimate-answer-advances:"+e.K+stateClass(cur), "a ping response that must be refused (%s, id %#x) advanced the measurement: %v", e.K, sentID, kinds)
					// follow the implementation so that the rest of the sequence stays meaningful
					if cur != nil {
						for _, p := range pings {
							cur.issued = append(cur.issued, p)
							cur.sentAt[p] = now
						}
						if len(finals) > 0 {
							cur.done = true
						}
					}
				}
				if len(errs) != 1 {
					fail("answer", "illegitimate-answer-not-refused:"+e.K+stateClass(cur), "a ping response that must be refused (%s, id %#x) was answered with %v", e.K, sentID, kinds)
				}
				continue
			}
			cur.answered = append(cur.answered, sentID)
			cur.latency[sentID] = float32((now - cur.sentAt[sentID]) / 1000)
			if uint32(len(cur.answered)) < cur.n {
				if len(pings) != 1 || len(finals) > 0 || len(errs) > 0 {
					fail("rounds", "round-not-followed-by-next-ping", "round %d of %d answered with %v", len(cur.answered), cur.n, kinds)
					continue
				}
				for _, old := range cur.issued {
					if old == pings[0] {
						fail("rounds", "ping-id-reused", "ping id %#x issued twice", old)
					}
				}
				cur.issued = append(cur.issued, pings[0])
				cur.sentAt[pings[0]] = now
				continue
			}
			cur.done = true
			if len(finals) != 1 || len(pings) > 0 || len(errs) > 0 {
				fail("rounds", "last-round-not-followed-by-report", "after %d of %d rounds: %v", len(cur.answered), cur.n, kinds)
				continue
			}
			checkReport(fail, cur, finals[0], key.PublicKey)
		}
	}
	left := w.Finish()
	if len(left) > 0 {
		fail("teardown", "threads-left:"+leftoverClass(left), "threads never finished: %s", leftoverString(left))
	}
	out.Points, out.Steps, out.HitCap = s.Points, s.Steps, s.HitCap
	out.Violations = x.V
	out.Key = strings.Join(trace, " ")
	return out
}

func stateClass(m *measurement) string {
	switch {
	case m == nil:
		return ":no-measurement"
	case m.done:
		return ":after-completion"
	}
	return ":in-progress"
}

func checkReport(fail func(string, string, string, ...any), m *measurement, rep *hagallpb.SignedLatencyResponse, pub any) {
	if rep.RequestId != m.rid {
		fail("report", "request-id", "report carries request id %d, the measurement was requested with %d", rep.RequestId, m.rid)
	}
	sig, err := hexutil.Decode(rep.Signature)
	if err != nil {
		fail("report", "signature-not-hex", "%v", err)
		return
	}
	key, _ := crypto.HexToECDSA(c18Key)
	rec, err := crypto.SigToPub(crypto.Keccak256(rep.Data), sig)
	if err != nil || crypto.PubkeyToAddress(*rec) != crypto.PubkeyToAddress(key.PublicKey) {
		fail("report", "signature-does-not-verify", "the public key recovered from the signature over Keccak-256(data) is not the server's (%v)", err)
	}
	var d hagallpb.LatencyData
	if err := proto.Unmarshal(rep.Data, &d); err != nil {
		fail("report", "data-not-decodable", "%v", err)
		return
	}
	if d.ClientId != "client-7" || d.SessionId != m.uuid || d.WalletAddress != m.wallet {
		fail("report", "not-bound-to-request", "data names client %q session %q wallet %q; expected client-7 / %s / %s", d.ClientId, d.SessionId, d.WalletAddress, m.uuid, m.wallet)
	}
	ids := append([]uint32{}, d.PingRequestIds...)
	want := append([]uint32{}, m.issued...)
	sort.Slice(ids, func(i, j int) bool { return ids[i] < ids[j] })
	sort.Slice(want, func(i, j int) bool { return want[i] < want[j] })
	if fmt.Sprint(ids) != fmt.Sprint(want) || d.IterationCount != m.n || uint32(len(m.issued)) != m.n {
		fail("report", "ping-ids-differ", "report lists %d ids %v (iteration_count %d); the server issued %v for %d rounds", len(ids), ids, d.IterationCount, want, m.n)
		return
	}
	var lo, hi, sum float32
	lo = float32(math.Inf(1))
	for _, id := range m.issued {
		l := m.latency[id]
		if l < lo {
			lo = l
		}
		if l > hi {
			hi = l
		}
		sum += l
	}
	mean := float32(math.Round(float64(sum) / float64(len(m.issued))))
	last := m.latency[m.answered[len(m.answered)-1]]
	if !(0 <= d.Min && d.Min <= d.Mean && d.Mean <= d.Max) || d.P95 < d.Min || d.P95 > d.Max || d.Last < d.Min || d.Last > d.Max {
		fail("report", "statistics-inconsistent", "min=%v mean=%v max=%v p95=%v last=%v", d.Min, d.Mean, d.Max, d.P95, d.Last)
	}
	if d.Min != lo || d.Max != hi || d.Mean != mean {
		fail("report", "statistics-differ-from-rounds", "min/mean/max = %v/%v/%v, the rounds took %v (min %v mean %v max %v)", d.Min, d.Mean, d.Max, m.latency, lo, mean, hi)
	}
	if d.Last != last {
		fail("report", "last-is-not-final-round", "last=%v, the final round took %v µs (rounds: %v)", d.Last, last, m.latency)
	}
}

type c18Params struct {
	Depth  int    `json:"depth"`
	N      int    `json:"n"`
	Shard  int    `json:"shard"`
	Shards int    `json:"shards"`
	Mode   string `json:"mode"` // "behaviours", "counts", "straight"
}

func init() {
	check.Register("c18", func(j *check.Job) *check.Result {
		var p c18Params
		json.Unmarshal(j.Params, &p)
		res := &check.Result{Exhaustive: true, Extra: map[string]any{"mode": p.Mode}}
		seen := map[string]bool{}
		outcomes := map[string]bool{}
		run := func(seq []lev, joined, mapOrder bool) {
			bound := 0
			if mapOrder {
				bound = 64
			}
			st := explore.Explore(func(ch vrt.Chooser) explore.Outcome { return runLatency(seq, joined, ch, mapOrder) }, explore.Config{Bound: bound})
			res.Executions += st.Executions
			res.Transitions += st.Executions * (len(seq) + 1)
			res.Steps += st.Steps
			for k := range st.Outcomes {
				outcomes[k] = true
			}
			for _, f := range st.Found {
				if !seen[f.Oracle+f.Detail] {
					seen[f.Oracle+f.Detail] = true
					hb, _ := json.Marshal(map[string]any{"seq": seq, "joined": joined, "map_order": mapOrder})
					res.Violations = append(res.Violations, check.Violation{Scenario: j.Name, Oracle: f.Oracle, Detail: f.Detail, Info: fmt.Sprintf("behaviours %v (joined=%v): %s", seq, joined, f.Info), Replay: &check.Replay{History: hb, Choices: f.Prefix}})
				}
			}
		}
		if j.Replay != nil {
			var rp struct {
				Seq      []lev `json:"seq"`
				Joined   bool  `json:"joined"`
				MapOrder bool  `json:"map_order"`
			}
			json.Unmarshal(j.Replay.History, &rp)
			out := runLatency(rp.Seq, rp.Joined, &explore.FixedChooser{Choices: j.Replay.Choices}, rp.MapOrder)
			fmt.Println("  ", out.Key)
			for _, v := range out.Violations {
				fmt.Println("   !!", v.Oracle, v.Detail, v.Info)
				res.Violations = append(res.Violations, check.Violation{Scenario: j.Name, Oracle: v.Oracle, Detail: v.Detail, Info: v.Info})
			}
			res.Executions = 1
			return res
		}
		switch p.Mode {
		case "counts":
			for _, n := range []uint32{0, 1, 2, 3, 4, 5, 49, 50, 51, 60, math.MaxUint32} {
				for wl := range c18Wallets {
					for _, joined := range []bool{true, false} {
						seq := []lev{{K: "start", N: n, W: wl}}
						for i := uint32(0); i < 52 && (n <= 60); i++ {
							seq = append(seq, lev{K: "cur"})
						}
						run(seq, joined, false)
						res.States++
					}
				}
			}
		case "straight":
			// straight runs with every rotation of the map order the statistics iterate in
			for _, n := range []uint32{3, 4, 5, 6} {
				seq := []lev{{K: "start", N: n}}
				for i := uint32(0); i < n; i++ {
					seq = append(seq, lev{K: "cur"})
				}
				seq = append(seq, lev{K: "cur"}, lev{K: "again"})
				run(seq, true, true)
				res.States++
			}
		default:
			alpha := []lev{{K: "cur"}, {K: "again"}, {K: "old"}, {K: "unknown"}, {K: "start", N: uint32(p.N)}, {K: "switch"}}
			var rec func(seq []lev)
			n := 0
			rec = func(seq []lev) {
				if len(seq) > 1 {
					n++
					if p.Shards <= 1 || n%p.Shards == p.Shard {
						run(seq, true, false)
						res.States++
					}
				}
				if len(seq) == p.Depth+1 {
					return
				}
				for _, a := range alpha {
					rec(append(append([]lev{}, seq...), a))
				}
			}
			rec([]lev{{K: "start", N: uint32(p.N)}})
		}
		res.Outcomes = len(outcomes)
		res.MaxDepth = p.Depth
		res.Samples = []any{map[string]any{"behaviours": "start(3,w0) cur again cur old cur unknown", "clock": "advanced by 1 ms, 3 µs, 7 µs, 1 µs, ... before each event"}}
		return res
	})
	check.RegisterProp("C18", func(tier string) []check.Job {
		depth, sh := 7, 16
		if tier == "thorough" {
			depth, sh = 8, 16
		}
		var jobs []check.Job
		for _, n := range []int{3, 4} {
			for i := 0; i < sh; i++ {
				p, _ := json.Marshal(c18Params{Depth: depth, N: n, Shard: i, Shards: sh, Mode: "behaviours"})
				jobs = append(jobs, check.Job{Kind: "c18", Name: fmt.Sprintf("S3:latency-behaviours-n%d", n), Params: p})
			}
		}
		p1, _ := json.Marshal(c18Params{Mode: "counts"})
		p2, _ := json.Marshal(c18Params{Mode: "straight"})
		jobs = append(jobs, check.Job{Kind: "c18", Name: "IN:latency-counts", Params: p1}, check.Job{Kind: "c18", Name: "S3:latency-straight-maporder", Params: p2})
		return jobs
	}, check.PropInfo{
		Rule:        "client behaviours as event sequences (answer the current ping / answer the last answered id again / answer an older or abandoned id / answer an unknown id / start a new measurement / switch session) of length <= depth after a start with n in {3,4}, every sequence, on the real server under a virtual clock advanced by distinct steps before each event (the harness knows every round's latency exactly); iteration counts {0,1,2,3,4,5,49,50,51,60,MaxUint32} x wallets {plain, empty, mixed-case address, surrounded by blanks, trailing tab, non-ASCII} x joined / not joined; straight runs with every rotation of the iteration order of the map the statistics are computed from. Oracle: starts only when allowed, exactly n PING_REQUESTs, one report, public key recovered from the signature over Keccak-256(data) = server key, data names client / session uuid / wallet, ping id list = issued ids, statistics recomputed from the known latencies, illegitimate answers refused without advancing.",
		Assumptions: []string{"the clock advances by at least 1 µs between events (ping-id collisions of a frozen clock are outside the alphabet)", "receiver/sender threads eager; one event at a time"},
	})
}

// ---- a new measurement requested back to back with the answer to an outstanding ping:
// whatever handles the two must not touch the measurement's state from two goroutines
// (race build), and the report that follows belongs to the new request ------------------

func runLatencyOverlap(variant int, ch vrt.Chooser, rw *raceWatch, seen map[string]bool) (out explore.Outcome) {
	key, _ := crypto.HexToECDSA(c18Key)
	w := world.New(world.Config{PrivateKey: key, ClientID: "client-7"}, ch)
	s := w.S
	s.EagerLabels = []string{eagerPrefix}
	s.NoPreempt = true
	x := &Ctx{W: w, C: map[string]*world.Client{}, J: map[string]JoinInfo{}, Vars: map[string]any{}}
	fail := func(oracle, detail, f string, a ...any) {
		x.V = append(x.V, explore.Violation{Oracle: oracle, Detail: detail, Info: fmt.Sprintf(f, a...)})
	}
	x.conn("a")
	c := x.C["a"]
	x.join("a", "")
	nextPing := func() (uint32, bool) {
		for _, r := range c.Take() {
			if m, ok := r.Msg.(*hagallpb.Response); ok && r.Type == 38 {
				return m.RequestId, true
			}
		}
		return 0, false
	}
	start := func(wallet string, n uint32) uint32 {
		rid := c.NextReqID()
		c.SendMsg(&hagallpb.SignedLatencyRequest{Type: hagallpb.MsgType_MSG_TYPE_SIGNED_LATENCY_REQUEST, Timestamp: w.NextTS(), RequestId: rid, IterationCount: n, WalletAddress: wallet})
		return rid
	}
	answer := func(id uint32) {
		c.SendMsg(&hagallpb.Response{Type: hagallpb.MsgType_MSG_TYPE_PING_RESPONSE, Timestamp: w.NextTS(), RequestId: id})
	}
	start("0xAAA1", 3)
	w.Run()
	p, ok := nextPing()
	// answer `variant` rounds of the first measurement properly
	for i := 0; ok && i < variant; i++ {
		s.Advance(time.Millisecond)
		answer(p)
		w.Run()
		p, ok = nextPing()
	}
	if ok {
		s.Advance(time.Millisecond)
		// back to back: the new request and the answer to the outstanding ping of the old one
		s.NoPreempt = false
		s.ForgetLastRun()
		rid2 := start("0xBBB2", 3)
		answer(p)
		w.Run()
		s.NoPreempt = true
		// play the new measurement to its end
		var final []*hagallpb.SignedLatencyResponse
		for round := 0; round < 8; round++ {
			var ping uint32
			have := false
			for _, r := range c.Take() {
				switch m := r.Msg.(type) {
				case *hagallpb.Response:
					if r.Type == 38 {
						ping, have = m.RequestId, true
					}
				case *hagallpb.SignedLatencyResponse:
					final = append(final, m)
				}
			}
			if !have {
				break
			}
			s.Advance(time.Millisecond)
			answer(ping)
			w.Run()
		}
		for _, r := range c.Take() {
			if m, ok := r.Msg.(*hagallpb.SignedLatencyResponse); ok {
				final = append(final, m)
			}
		}
		n2 := 0
		for _, f := range final {
			if f.RequestId == rid2 {
				n2++
				var d hagallpb.LatencyData
				if err := proto.Unmarshal(f.Data, &d); err != nil || d.WalletAddress != "0xBBB2" || d.IterationCount != 3 {
					fail("report", "not-bound-to-request", "the report answering the second request (wallet 0xBBB2, 3 rounds) names wallet %q and %d rounds (%v)", d.WalletAddress, d.IterationCount, err)
				}
			}
		}
		if n2 != 1 {
			fail("report", fmt.Sprintf("restarted-measurement-reports:%d", n2), "a measurement restarted while a ping of the previous one was outstanding, then played to its end, was answered with %d reports", n2)
		}
	}
	for _, r := range rw.fresh() {
		if !seen[r.Sig] {
			seen[r.Sig] = true
			fail("race", r.Sig, "unsynchronised conflicting accesses while a restart and a ping answer are handled (Go race detector, happens-before):\n%s", r.Text)
		}
	}
	left := w.Finish()
	if len(left) > 0 {
		fail("teardown", "threads-left:"+leftoverClass(left), "threads never finished: %s", leftoverString(left))
	}
	out.Points, out.Steps, out.HitCap = s.Points, s.Steps, s.HitCap
	out.Violations = x.V
	out.Key = fmt.Sprint(len(x.V))
	return out
}

func init() {
	check.Register("c18overlap", func(j *check.Job) *check.Result {
		res := &check.Result{Exhaustive: true, Extra: map[string]any{}, Bound: 2}
		rw := newRaceWatch()
		seen := map[string]bool{}
		dedup := map[string]bool{}
		for variant := 0; variant < 3; variant++ {
			variant := variant
			st := explore.Explore(func(ch vrt.Chooser) explore.Outcome { return runLatencyOverlap(variant, ch, rw, seen) }, explore.Config{Bound: 2})
			res.Executions += st.Executions
			res.States += st.Executions
			res.Transitions += st.Points + st.Executions
			res.Steps += st.Steps
			if !st.Exhaustive {
				res.Exhaustive, res.CapHit = false, st.CapHit
			}
			for _, f := range st.Found {
				if !dedup[f.Oracle+f.Detail] {
					dedup[f.Oracle+f.Detail] = true
					res.Violations = append(res.Violations, check.Violation{Scenario: j.Name, Oracle: f.Oracle, Detail: f.Detail, Info: fmt.Sprintf("after %d answered rounds: %s", variant, f.Info), Replay: &check.Replay{Choices: trimZeros(f.Prefix)}})
				}
			}
		}
		res.Outcomes = len(dedup) + 1
		res.Samples = []any{map[string]any{"history": "start(0xAAA1,3); answer k rounds; [start(0xBBB2,3) + answer to the outstanding ping] back to back; play to the end", "k": []int{0, 1, 2}}}
		return res
	})
	check.WrapPlanner("C18", func(tier string, jobs []check.Job) []check.Job {
		return append(jobs, check.Job{Kind: "c18overlap", Name: "S2:latency-restart-vs-ping-answer", BudgetS: 300}, check.Job{Kind: "c18overlap", Name: "S2:latency-restart-vs-ping-answer+race", BudgetS: 300, Race: true})
	})
}
