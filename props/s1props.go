package props

import (
	"encoding/json"

	"verif/check"
)

var s1Assumptions = []string{
	"one event at a time: after every client event the whole server runs to quiescence (interleavings are the business of the S2 jobs)",
	"states are de-duplicated by the reference model's canonical state (values renamed by rank, id counters included); the model is checked against the implementation at every step",
	"symmetry: connection k acts only after connection k-1 has (all start identical)",
	"in-memory pipe instead of TCP; virtual clock",
}

const s1Rule = "S1: explicit-state BFS over event histories; every history is executed on the real server (fresh world, wire level), each step compared with the reference model's set of acceptable outputs (responses, relays per recipient, exactly-once), client replicas updated from received bytes only and compared with the model, a probe joiner compared with the model in every reached state; states = distinct canonical model states, transitions = histories executed."

func init() {
	type fam struct {
		name         string
		quick, thoro int
	}
	plan := func(tags []string, fams []fam, extra func(tier string) []check.Job) check.Planner {
		return func(tier string) []check.Job {
			var jobs []check.Job
			for _, f := range fams {
				d, budget := f.quick, 150
				if tier == "thorough" {
					d, budget = f.thoro, 1500
				}
				// the big families get most of the worker processes
				w := 2
				switch f.name {
				case "entities":
					w = 9
				case "components":
					w = 5
				case "modules", "lifecycle":
					w = 3
				}
				if len(fams) <= 2 {
					w = 14 / len(fams) // a property with one or two families gets all the cores
				}
				jobs = append(jobs, s1job(f.name, d, tags, w, budget))
			}
			if extra != nil {
				jobs = append(jobs, extra(tier)...)
			}
			return jobs
		}
	}
	info := check.PropInfo{Rule: s1Rule, Assumptions: s1Assumptions}
	check.RegisterProp("C01", plan([]string{"C01"}, []fam{{"entities", 7, 8}, {"components", 5, 7}, {"modules", 4, 7}}, nil), info)
	check.RegisterProp("C02", plan([]string{"C02"}, []fam{{"entities", 7, 8}, {"components", 5, 7}, {"modules", 4, 7}, {"pose-churn", 6, 8}}, nil), info)
	check.RegisterProp("C04", plan([]string{"C04"}, []fam{{"entities", 7, 8}, {"components-ids", 3, 5}, {"modules", 6, 7}, {"lifecycle", 6, 8}, {"groundplane", 4, 6}}, func(tier string) []check.Job {
		// the remaining request kinds: receipts (incl. the queue-full answer), signed latency starts,
		// and two concurrent adds of one component (exactly one success)
		p1, _ := json.Marshal(c19Params{Cap: 1, Mode: "never", Pairs: true, Fill: true})
		p2, _ := json.Marshal(c19Params{Cap: 128, Mode: "200", Pairs: true})
		p3, _ := json.Marshal(c18Params{Mode: "counts"})
		return []check.Job{
			{Kind: "c19", Name: "IN:receipt-pairs-queue-full", Params: p1},
			{Kind: "c19", Name: "IN:receipt-pairs", Params: p2},
			{Kind: "c18", Name: "IN:latency-counts", Params: p3},
			s2job(pairName(pairReq{"a", "cadd"}, pairReq{"b", "cadd"}), 2, 300),
			c19concurrent(1, "200", 1), c19concurrent(1, "never", 1), c19concurrent(2, "200", 1),
		}
	}), info)
	check.RegisterProp("C05", plan([]string{"C05"}, []fam{{"entities", 7, 8}, {"modules", 4, 7}, {"own-switch", 7, 9}}, nil), info)
	check.RegisterProp("C06", plan([]string{"C06"}, []fam{{"entities", 7, 8}, {"components", 5, 7}, {"modules", 4, 7}, {"subscriptions", 8, 10}}, nil), info)
	check.RegisterProp("C12", plan([]string{"C12"}, []fam{{"components", 6, 8}, {"components-ids", 4, 6}}, nil), info)
	check.RegisterProp("C13", plan([]string{"C13"}, []fam{{"components", 6, 8}, {"subscriptions", 8, 10}}, nil), info)
	check.RegisterProp("C16", plan([]string{"C16"}, []fam{{"modules", 7, 10}}, nil), info)
}
