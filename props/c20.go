package props

import (
	"encoding/json"
	"fmt"
	"math"
	"os"
	"os/exec"
	"path/filepath"
	"sort"
	"strings"
	"time"

	"github.com/aukilabs/hagall/modules/dagaz"

	"verif/check"
)

// ---- C20 (a): the grid alone, through its exported API ---------------------------

type gq struct{ CX, CY, CZ, EX, EZ float32 }

func (q gq) String() string { return fmt.Sprintf("(%g,%g,%g|%g,%g)", q.CX, q.CY, q.CZ, q.EX, q.EZ) }

func (q gq) quad() dagaz.Quad {
	return dagaz.Quad{Center: dagaz.NewVector3f(q.CX, q.CY, q.CZ), Extents: dagaz.NewVector3f(q.EX, 0, q.EZ), Normal: dagaz.NewVector3f(0, 1, 0)}
}

func v3(v dagaz.Vector3f) (float32, float32, float32) {
	p := v.ToProtobuf()
	return p.X, p.Y, p.Z
}

type gridViol struct{ Inv, Class, Info string }

// gridInvariants checks the index-completeness invariants of C20 on g.
func gridInvariants(g *dagaz.RegularGrid) []gridViol {
	var out []gridViol
	add := func(inv, class, f string, a ...any) { out = append(out, gridViol{inv, class, fmt.Sprintf(f, a...)}) }
	res := float32(g.Resolution)
	minx, _, minz := v3(g.Min)
	maxx, _, maxz := v3(g.Max)
	rows := len(g.Grid)
	cols := 0
	if rows > 0 {
		cols = len(g.Grid[0])
	}
	for i := range g.Grid {
		if len(g.Grid[i]) != cols {
			add("shape", "ragged-grid", "row %d has %d columns, row 0 has %d", i, len(g.Grid[i]), cols)
			return out
		}
	}
	if want := float32(cols) * res; math.Abs(float64((maxx-minx)-want)) > 1e-3 {
		add("shape", "bounds-vs-columns", "Max.x-Min.x = %g but %d columns of %g", maxx-minx, cols, res)
	}
	if want := float32(rows) * res; math.Abs(float64((maxz-minz)-want)) > 1e-3 {
		add("shape", "bounds-vs-rows", "Max.z-Min.z = %g but %d rows of %g", maxz-minz, rows, res)
	}
	planes := map[*dagaz.Quad]bool{}
	var order []*dagaz.Quad
	for i := range g.Grid {
		for j := range g.Grid[i] {
			seen := map[*dagaz.Quad]bool{}
			for _, q := range g.Grid[i][j] {
				if seen[q] {
					add("I1", "plane-twice-in-cell", "cell (%d,%d) lists the same plane twice", i, j)
				}
				seen[q] = true
				if !planes[q] {
					planes[q] = true
					order = append(order, q)
				}
			}
		}
	}
	if int(g.PlaneCount) != len(order) {
		add("I5", "plane-count", "PlaneCount=%d but %d distinct planes are stored", g.PlaneCount, len(order))
	}
	for _, q := range order {
		cx, cy, cz := v3(q.Center)
		ex, _, ez := v3(q.Extents)
		fx0, fx1, fz0, fz1 := cx-ex, cx+ex, cz-ez, cz+ez
		if fx0 < minx-1e-4 || fx1 > maxx+1e-4 || fz0 < minz-1e-4 || fz1 > maxz+1e-4 {
			add("I4", "footprint-outside-bounds", "plane %v extends beyond the grid bounds x[%g,%g] z[%g,%g]", planeStr(q), minx, maxx, minz, maxz)
		}
		// I1: registered in every cell its footprint overlaps (open overlap)
		missing := 0
		var where []string
		for i := 0; i < rows; i++ {
			for j := 0; j < cols; j++ {
				cx0, cx1 := minx+float32(j)*res, minx+float32(j+1)*res
				cz0, cz1 := minz+float32(i)*res, minz+float32(i+1)*res
				if fx0 < cx1-1e-4 && fx1 > cx0+1e-4 && fz0 < cz1-1e-4 && fz1 > cz0+1e-4 {
					in := false
					for _, p := range g.Grid[i][j] {
						if p == q {
							in = true
						}
					}
					if !in {
						missing++
						where = append(where, fmt.Sprintf("(%d,%d)", i, j))
					}
				}
			}
		}
		if missing > 0 {
			add("I1", "plane-missing-from-overlapped-cell", "plane %v is not registered in cells %v which its footprint overlaps", planeStr(q), where)
		}
		// I3: a vertical ray through the centre hits a plane
		if cx >= minx && cx < maxx && cz >= minz && cz < maxz {
			ray := dagaz.Ray{From: dagaz.NewVector3f(cx, cy+1, cz), To: dagaz.NewVector3f(cx, cy-1, cz)}
			if hit, _ := g.IntersectQuad(ray); hit == nil {
				add("I3", "centre-ray-misses", "a vertical ray through the centre of plane %v hits nothing", planeStr(q))
			}
		} else {
			add("I3", "centre-outside-grid", "centre of plane %v lies outside the grid", planeStr(q))
		}
	}
	// I2: a region query covering the grid returns every plane exactly once
	got := g.GetRegion(dagaz.NewVector3f(minx-10, 0, minz-10), dagaz.NewVector3f(maxx+10, 0, maxz+10))
	gs := map[*dagaz.Quad]int{}
	for _, q := range got {
		gs[q]++
	}
	for _, q := range order {
		if gs[q] == 0 {
			add("I2", "region-misses-plane", "a region query covering the grid does not return plane %v", planeStr(q))
		}
		if gs[q] > 1 {
			add("I2", "region-returns-plane-twice", "region query returns plane %v %d times", planeStr(q), gs[q])
		}
	}
	for q := range gs {
		if !planes[q] {
			add("I2", "region-returns-unknown-plane", "region query returns a plane stored in no cell")
		}
	}
	return out
}

func planeStr(q *dagaz.Quad) string {
	cx, cy, cz := v3(q.Center)
	ex, _, ez := v3(q.Extents)
	return fmt.Sprintf("(%g,%g,%g|%g,%g)", cx, cy, cz, ex, ez)
}

func gridKey(g *dagaz.RegularGrid) string {
	var sb strings.Builder
	minx, _, minz := v3(g.Min)
	maxx, _, maxz := v3(g.Max)
	fmt.Fprintf(&sb, "%d/%d/%g,%g/%g,%g;", g.PlaneCount, g.MergeCount, minx, minz, maxx, maxz)
	ids := map[*dagaz.Quad]int{}
	for i := range g.Grid {
		for j := range g.Grid[i] {
			var cell []string
			for _, q := range g.Grid[i][j] {
				if _, ok := ids[q]; !ok {
					ids[q] = len(ids)
				}
				cell = append(cell, planeStr(q))
			}
			sort.Strings(cell)
			fmt.Fprintf(&sb, "%d,%d:%v;", i, j, cell)
		}
	}
	return sb.String()
}

type gridParams struct {
	Depth    int    `json:"depth"`
	Alphabet string `json:"alphabet"`
	Shard    int    `json:"shard"`
	Shards   int    `json:"shards"`
}

func gridAlphabet(name string) []gq {
	var out []gq
	switch name {
	case "small":
		for _, x := range []float32{-3, -0.5, 0.5, 1, 4} {
			for _, z := range []float32{-3, -0.5, 0.5, 1, 4} {
				for _, y := range []float32{0, 0.3} {
					for _, e := range []float32{0.5, 1.25} {
						out = append(out, gq{x, y, z, e, e})
					}
				}
			}
		}
	case "layers":
		// two heights that never merge with each other, centres one cell apart,
		// extents chosen so that a merge (20 % towards the sample) moves edges
		// across cell boundaries both ways: planes leave and enter cells that
		// hold other planes
		for _, x := range []float32{-1, 1, 3} {
			for _, z := range []float32{1, 3} {
				for _, y := range []float32{0, 1} {
					for _, e := range []float32{0.2, 1.1, 2.3} {
						out = append(out, gq{x, y, z, e, e})
					}
				}
			}
		}
	case "wide":
		for _, x := range []float32{-5, -2.5, -0.5, 0, 0.5, 1, 3, 5} {
			for _, z := range []float32{-5, -0.5, 0.5, 1, 5} {
				for _, y := range []float32{0, 0.3, 0.7, 2} {
					for _, e := range [][2]float32{{0.25, 0.25}, {0.5, 1.25}, {1.25, 0.5}, {3, 3}} {
						out = append(out, gq{x, y, z, e[0], e[1]})
					}
				}
			}
		}
		out = append(out, gq{63.5, 0, 63.5, 0.25, 0.25}, gq{-63.5, 0, -63.5, 0.25, 0.25}, gq{63.5, 0, -63.5, 0.5, 0.5})
	}
	return out
}

// insertAll builds a fresh grid as the module does and inserts seq; a panic
// is reported as a violation.
func insertAll(seq []gq) (g *dagaz.RegularGrid, panicked string) {
	g = dagaz.NewRegularGrid(1, 1, 2)
	defer func() {
		if r := recover(); r != nil {
			panicked = fmt.Sprint(r)
		}
	}()
	for _, q := range seq {
		g.InsertQuad(q.quad())
	}
	return g, ""
}

func panicClass(p string) string {
	switch {
	case strings.Contains(p, "index out of range"):
		return "index-out-of-range"
	case strings.Contains(p, "slice bounds"):
		return "slice-bounds"
	case strings.Contains(p, "nil pointer"):
		return "nil-dereference"
	case strings.Contains(p, "makeslice"):
		return "makeslice"
	}
	return "other"
}

func init() {
	check.Register("grid", func(j *check.Job) *check.Result {
		var p gridParams
		json.Unmarshal(j.Params, &p)
		res := &check.Result{Exhaustive: true, Extra: map[string]any{"alphabet": p.Alphabet, "depth": p.Depth}}
		alpha := gridAlphabet(p.Alphabet)
		res.Extra["alphabet_size"] = len(alpha)
		if j.Replay != nil {
			var seq []gq
			json.Unmarshal(j.Replay.History, &seq)
			g, pan := insertAll(seq)
			fmt.Println("   sequence", seq, "panic:", pan)
			if pan != "" {
				res.Violations = append(res.Violations, check.Violation{Scenario: j.Name, Oracle: "panic", Detail: "insert:" + panicClass(pan), Info: pan})
			} else {
				for _, v := range gridInvariants(g) {
					fmt.Println("   !!", v.Inv, v.Class, v.Info)
					res.Violations = append(res.Violations, check.Violation{Scenario: j.Name, Oracle: v.Inv, Detail: v.Class, Info: v.Info})
				}
			}
			res.Executions = 1
			return res
		}
		var deadline time.Time
		if j.BudgetS > 0 {
			deadline = time.Now().Add(time.Duration(j.BudgetS) * time.Second)
		}
		seen := map[string]bool{}
		viol := map[string]check.Violation{}
		frontier := [][]gq{nil}
		for d := 1; d <= p.Depth; d++ {
			var next [][]gq
			for fi, pre := range frontier {
				if d == 1 && false {
					_ = fi
				}
				for ai, a := range alpha {
					if d == 1 && p.Shards > 1 && ai%p.Shards != p.Shard {
						continue
					}
					if !deadline.IsZero() && res.Transitions%4096 == 0 && time.Now().After(deadline) {
						res.Exhaustive = false
						res.CapHit = fmt.Sprintf("time budget at depth %d (depth %d completed)", d, d-1)
						goto done
					}
					seq := append(append([]gq{}, pre...), a)
					res.Transitions++
					g, pan := insertAll(seq)
					var vs []gridViol
					if pan != "" {
						vs = []gridViol{{"panic", "insert:" + panicClass(pan), pan}}
					} else {
						vs = gridInvariants(g)
					}
					if len(vs) > 0 {
						for _, v := range vs {
							sig := v.Inv + "|" + v.Class
							if _, dup := viol[sig]; !dup {
								hb, _ := json.Marshal(seq)
								tags := []string{"C20"}
								if v.Inv == "panic" {
									tags = append(tags, "C08") // a sample sequence any client can send panics the handler
								}
								viol[sig] = check.Violation{Scenario: j.Name, Oracle: v.Inv, Detail: v.Class, Info: fmt.Sprintf("after inserting %v: %s", seq, v.Info), Replay: &check.Replay{History: hb}, Tags: tags}
							}
						}
						continue // violating states are reported, not expanded
					}
					k := gridKey(g)
					if seen[k] {
						continue
					}
					seen[k] = true
					if d < p.Depth {
						next = append(next, seq)
					}
				}
			}
			res.MaxDepth = d
			frontier = next
		}
	done:
		res.States = len(seen)
		res.Executions = res.Transitions
		res.Outcomes = len(seen)
		var sigs []string
		for s := range viol {
			sigs = append(sigs, s)
		}
		sort.Strings(sigs)
		for _, s := range sigs {
			res.Violations = append(res.Violations, viol[s])
		}
		res.Samples = []any{map[string]any{"insertions": fmt.Sprint([]gq{alpha[0], alpha[len(alpha)/2], alpha[len(alpha)-1]}), "grid": "NewRegularGrid(1,1,2)"}}
		return res
	})
	check.Register("prims", func(j *check.Job) *check.Result {
		res := &check.Result{Exhaustive: true, Extra: map[string]any{}}
		exe, _ := os.Executable()
		build := filepath.Dir(exe)
		root := filepath.Dir(build)
		ov := filepath.Join(build, "prims-overlay.json")
		ob, _ := json.Marshal(map[string]any{"Replace": map[string]string{"/repo/modules/dagaz/zz_verif_prims_test.go": filepath.Join(root, "extra/prims/prims_test.go.txt")}})
		os.WriteFile(ov, ob, 0o644)
		cmd := exec.Command("go", "test", "-overlay", ov, "-vet=off", "-count=1", "-v", "-run", "TestVerifPrims", "./modules/dagaz/")
		cmd.Dir = "/repo"
		cmd.Env = append(os.Environ(), "GOFLAGS=-mod=mod", "GOPROXY=off", "GOSUMDB=off", "GOTOOLCHAIN=local")
		if j.Tier != "thorough" {
			cmd.Env = append(cmd.Env, "VERIF_PRIMS_QUICK=1")
		}
		out, err := cmd.CombinedOutput()
		var st struct {
			Cases      map[string]int      `json:"cases"`
			Skipped    map[string]int      `json:"skipped_out_of_range_or_ambiguous"`
			Mismatches map[string][]string `json:"mismatches"`
		}
		found := false
		for _, l := range strings.Split(string(out), "\n") {
			if strings.HasPrefix(l, "VERIFPRIMS ") {
				found = json.Unmarshal([]byte(l[11:]), &st) == nil
			}
		}
		if !found {
			tail := string(out)
			if len(tail) > 2000 {
				tail = tail[len(tail)-2000:]
			}
			res.EngineError = fmt.Sprintf("primitive harness did not run (%v): %s", err, tail)
			return res
		}
		for _, n := range st.Cases {
			res.Executions += n
		}
		res.States, res.Transitions, res.Outcomes = res.Executions, res.Executions, len(st.Cases)
		res.Extra["cases"] = st.Cases
		res.Extra["skipped_out_of_range_or_ambiguous"] = st.Skipped
		for kind, ms := range st.Mismatches {
			res.Violations = append(res.Violations, check.Violation{Scenario: j.Name, Oracle: "primitive", Detail: kind + "-disagrees-with-exact-reference", Info: strings.Join(ms, "; ")})
		}
		res.Samples = []any{map[string]any{"dot": "(0.5,-3.25,64).(1,2^-20,-0.5) vs exact rational", "alphabet": "0, ±2^-20, ±0.5, ±1, ±3.25, ±64 (thorough: ±maxfloat32/4)"}}
		return res
	})
	check.RegisterProp("C20", func(tier string) []check.Job {
		var jobs []check.Job
		depth, alpha, sh, budget := 2, "small", 8, 120
		if tier == "thorough" {
			depth, alpha, sh, budget = 3, "small", 16, 1200
		}
		for i := 0; i < sh; i++ {
			p, _ := json.Marshal(gridParams{Depth: depth, Alphabet: alpha, Shard: i, Shards: sh})
			jobs = append(jobs, check.Job{Kind: "grid", Name: "GRID:" + alpha, Params: p, BudgetS: budget})
		}
		ld, lsh := 3, 4
		if tier == "thorough" {
			ld, lsh = 4, 16
		}
		for i := 0; i < lsh; i++ {
			p, _ := json.Marshal(gridParams{Depth: ld, Alphabet: "layers", Shard: i, Shards: lsh})
			jobs = append(jobs, check.Job{Kind: "grid", Name: "GRID:layers", Params: p, BudgetS: budget})
		}
		wsh := 8
		for i := 0; i < wsh; i++ {
			p, _ := json.Marshal(gridParams{Depth: 2, Alphabet: "wide", Shard: i, Shards: wsh})
			jobs = append(jobs, check.Job{Kind: "grid", Name: "GRID:wide", Params: p, BudgetS: budget})
		}
		d := 5
		if tier == "thorough" {
			d = 7
		}
		jobs = append(jobs, s1job("groundplane", d, []string{"C20"}, 4, budget))
		// samples and queries after a session switch, two sessions alive
		td := 4
		if tier == "thorough" {
			td = 5
		}
		jobs = append(jobs, s1job("two-sessions", td, []string{"C20"}, 8, budget))
		jobs = append(jobs, check.Job{Kind: "prims", Name: "IN:primitives"})
		b := 2
		if tier == "thorough" {
			b = 3
		}
		for _, blk := range []string{"c20-lastleave-vs-join-close", "c20-lastleave-vs-join-switch", "c09-quad-quad", "c09-quad-region", "c09-mergequad-region"} {
			jobs = append(jobs, s2job(blk, b, budget))
		}
		return jobs
	}, check.PropInfo{
		Rule:        "(b) primitives (dot, cross, normal, overlap test, ray-quad intersection) over the full product of a 13-value float32 alphabet per coordinate against math/big references (cases whose exact intermediate exceeds float32 range, or that sit on a decision boundary within rounding, are counted as skipped); (a) the grid alone through its exported API, built as the module builds it (NewRegularGrid(1,1,2)): explicit-state BFS over insertion sequences from three lattices of quads (small: appends, merges, cascades; wide: growth in all directions; layers: two heights, merges that move plane edges across cell boundaries so that planes leave and enter cells holding other planes); in every reached state: every stored plane registered in every cell its footprint overlaps, a covering region query returns each plane exactly once, a vertical ray through each centre hits a plane, bounds contain every footprint, PlaneCount = distinct planes, no panic; (c) session level: S1 family groundplane (samples shared by members and retained across joins/leaves) and S2 blocks (concurrent inserts, insert vs region query, merge vs region query, last departure vs join) under every interleaving with a bounded number of preemptions",
		Assumptions: []string{"quads are horizontal with positive half-extents on a finite lattice bounded by 64 m", "states de-duplicated by a canonical dump of the exported grid fields"},
	})
}
