// Package props holds the per-property families, scenarios and oracles.
package props

import (
	"fmt"
	"sort"
	"strings"

	"github.com/aukilabs/hagall-common/messages/hagallpb"
	"github.com/prometheus/client_golang/prometheus"
	"github.com/prometheus/client_golang/prometheus/collectors"
	"google.golang.org/protobuf/proto"

	"verif/vrt"
	"verif/world"
)

func init() {
	// the Go runtime / process collectors make Gather() stop the world;
	// they are irrelevant to hagall's gauges
	prometheus.Unregister(collectors.NewGoCollector())
	prometheus.Unregister(collectors.NewProcessCollector(collectors.ProcessCollectorOpts{}))
}

const eagerPrefix = "websocket.handler.Handle#"

// requestID extracts the request id of a response-like message (0 if none).
func requestID(m proto.Message) uint32 {
	if m == nil {
		return 0
	}
	f := m.ProtoReflect().Descriptor().Fields().ByName("request_id")
	if f == nil {
		return 0
	}
	return uint32(m.ProtoReflect().Get(f).Uint())
}

// respFor returns the messages in rs that carry request id rid.
func respFor(rs []*world.Recv, rid uint32) []*world.Recv {
	var out []*world.Recv
	for _, r := range rs {
		if r.Msg != nil && requestID(r.Msg) == rid && isResponseType(r.Type) {
			out = append(out, r)
		}
	}
	return out
}

// isResponseType: message kinds that answer a request (carry its id).
func isResponseType(t int32) bool {
	switch t {
	case 0, 4, 9, 12, 19, 21, 23, 25, 28, 33, 35, 37, 39, 41, 43, 102, 202, 302, 304, 306:
		return true
	}
	return false
}

func joinReq(w *world.World, c *world.Client, sid string) (*hagallpb.ParticipantJoinRequest, uint32) {
	rid := c.NextReqID()
	return &hagallpb.ParticipantJoinRequest{Type: hagallpb.MsgType_MSG_TYPE_PARTICIPANT_JOIN_REQUEST, Timestamp: w.NextTS(), RequestId: rid, SessionId: sid}, rid
}

// JoinInfo is what a client learns from a successful join.
type JoinInfo struct {
	OK            bool
	Code          hagallpb.ErrorCode
	SessionID     string
	UUID          string
	ParticipantID uint32
	State         *hagallpb.SessionState
	Answers       int
}

func parseJoin(rs []*world.Recv, rid uint32) JoinInfo {
	var ji JoinInfo
	for _, r := range rs {
		switch m := r.Msg.(type) {
		case *hagallpb.ParticipantJoinResponse:
			if m.RequestId == rid {
				ji.Answers++
				ji.OK = true
				ji.SessionID, ji.UUID, ji.ParticipantID = m.SessionId, m.SessionUuid, m.ParticipantId
			}
		case *hagallpb.ErrorResponse:
			if m.RequestId == rid {
				ji.Answers++
				ji.Code = m.Code
			}
		case *hagallpb.SessionState:
			ji.State = m
		}
	}
	return ji
}

// join sends a join request, runs to quiescence and parses the answer.
func join(w *world.World, c *world.Client, sid string) JoinInfo {
	m, rid := joinReq(w, c, sid)
	c.SendMsg(m)
	w.Run()
	return parseJoin(c.Take(), rid)
}

// gauge reads a gauge / counter family value (sum over label sets) from the
// Prometheus default registry.
func gauge(name string) float64 {
	mfs, err := prometheus.DefaultGatherer.Gather()
	if err != nil {
		return -1
	}
	total := 0.0
	for _, mf := range mfs {
		if mf.GetName() != name {
			continue
		}
		for _, m := range mf.GetMetric() {
			if m.Gauge != nil {
				total += m.Gauge.GetValue()
			}
			if m.Counter != nil {
				total += m.Counter.GetValue()
			}
		}
	}
	return total
}

// aliveWorkers counts unfinished threads whose label ends in suffix.
func aliveWorkers(s *vrt.Sched, suffix string) (alive, total int) {
	for _, t := range s.Threads {
		if strings.HasSuffix(t.Label, suffix) {
			total++
			if !t.Done() {
				alive++
			}
		}
	}
	return
}

func participantIDs(st *hagallpb.SessionState) []uint32 {
	var ids []uint32
	if st == nil {
		return nil
	}
	for _, p := range st.Participants {
		ids = append(ids, p.Id)
	}
	sort.Slice(ids, func(i, j int) bool { return ids[i] < ids[j] })
	return ids
}

func hasU32(xs []uint32, x uint32) bool {
	for _, y := range xs {
		if x == y {
			return true
		}
	}
	return false
}

func leftoverString(left []world.Leftover) string {
	var parts []string
	for _, l := range left {
		parts = append(parts, l.Desc)
	}
	return strings.Join(parts, "; ")
}

// leftoverClass is the address-free class of leftover threads (labels only).
func leftoverClass(left []world.Leftover) string {
	var parts []string
	for _, l := range left {
		lab := l.Label
		if strings.HasPrefix(lab, "conn:") {
			lab = "conn"
		}
		parts = append(parts, lab)
	}
	sort.Strings(parts)
	return strings.Join(parts, ",")
}

func sprintf(f string, a ...any) string { return fmt.Sprintf(f, a...) }

func worldCfgMods(mods ...string) world.Config { return world.Config{Modules: mods} }

func firstLine(s string) string {
	s = strings.TrimSpace(s)
	if i := strings.IndexByte(s, '\n'); i >= 0 {
		return s[:i]
	}
	return s
}

// gaugeSeries returns every series of a gauge, keyed by its label values.
func gaugeSeries(name string) map[string]float64 {
	out := map[string]float64{}
	mfs, err := prometheus.DefaultGatherer.Gather()
	if err != nil {
		return out
	}
	for _, mf := range mfs {
		if mf.GetName() != name {
			continue
		}
		for _, m := range mf.GetMetric() {
			if m.Gauge == nil {
				continue
			}
			var ls []string
			for _, l := range m.GetLabel() {
				ls = append(ls, l.GetName()+"="+l.GetValue())
			}
			sort.Strings(ls)
			out[strings.Join(ls, ",")] = m.Gauge.GetValue()
		}
	}
	return out
}

// seriesDrift lists the series of a gauge that differ from their baseline.
func seriesDrift(name string, base map[string]float64) []string {
	var out []string
	now := gaugeSeries(name)
	keys := map[string]bool{}
	for k := range now {
		keys[k] = true
	}
	for k := range base {
		keys[k] = true
	}
	for k := range keys {
		if now[k] != base[k] {
			out = append(out, fmt.Sprintf("{%s}: %+g", k, now[k]-base[k]))
		}
	}
	sort.Strings(out)
	return out
}
