package props

import (
	"encoding/json"
	"fmt"
	"sort"
	"strings"
	"time"

	"github.com/anishathalye/porcupine"
	"github.com/aukilabs/hagall-common/messages/hagallpb"
	"github.com/aukilabs/hagall/models"

	"verif/check"
	"verif/explore"
	"verif/vrt"
)

// ---- linearizability of the component store's exported API ---------------------------

type sop struct {
	K    string // add, upd, del, list, addtype, sub, notify
	E    uint32
	Data string
}

func (o sop) String() string { return fmt.Sprintf("%s(e%d,%q)", o.K, o.E, o.Data) }

type sstate struct {
	comps map[uint32]string
	types map[string]uint32
	subs  map[uint32]bool
}

func (s sstate) clone() sstate {
	n := sstate{map[uint32]string{}, map[string]uint32{}, map[uint32]bool{}}
	for k, v := range s.comps {
		n.comps[k] = v
	}
	for k, v := range s.types {
		n.types[k] = v
	}
	for k, v := range s.subs {
		n.subs[k] = v
	}
	return n
}

func (s sstate) String() string {
	var p []string
	for k, v := range s.comps {
		p = append(p, fmt.Sprintf("%d=%s", k, v))
	}
	for k, v := range s.types {
		p = append(p, fmt.Sprintf("t%s=%d", k, v))
	}
	for k := range s.subs {
		p = append(p, fmt.Sprintf("s%d", k))
	}
	sort.Strings(p)
	return strings.Join(p, ",")
}

// the sequential specification: a map keyed by entity for the one type T (id 1)
var storeModel = porcupine.Model{
	Init: func() interface{} { return sstate{map[uint32]string{}, map[string]uint32{"T": 1}, map[uint32]bool{}} },
	Step: func(st, in, out interface{}) (bool, interface{}) {
		s := st.(sstate)
		o := in.(sop)
		res := out.(string)
		switch o.K {
		case "add":
			if _, ok := s.comps[o.E]; ok {
				return res == "conflict", s
			}
			n := s.clone()
			n.comps[o.E] = o.Data
			return res == "ok", n
		case "upd":
			if _, ok := s.comps[o.E]; !ok {
				return res == "absent", s
			}
			n := s.clone()
			n.comps[o.E] = o.Data
			return res == "ok", n
		case "del":
			if _, ok := s.comps[o.E]; !ok {
				return res == "false", s
			}
			n := s.clone()
			delete(n.comps, o.E)
			return res == "true", n
		case "list":
			var p []string
			for k, v := range s.comps {
				p = append(p, fmt.Sprintf("%d=%s", k, v))
			}
			sort.Strings(p)
			return res == strings.Join(p, ","), s
		case "addtype":
			if id, ok := s.types[o.Data]; ok {
				return res == fmt.Sprint(id), s
			}
			n := s.clone()
			id := uint32(len(s.types) + 1)
			n.types[o.Data] = id
			return res == fmt.Sprint(id), n
		case "sub":
			n := s.clone()
			n.subs[o.E] = true
			return res == "ok", n
		case "unsub":
			n := s.clone()
			delete(n.subs, o.E)
			return res == "ok", n
		case "notify":
			var p []string
			for k := range s.subs {
				p = append(p, fmt.Sprint(k))
			}
			sort.Strings(p)
			return res == strings.Join(p, ","), s
		}
		return false, s
	},
	Equal: func(a, b interface{}) bool { return a.(sstate).String() == b.(sstate).String() },
}

func applyStoreOp(st *models.EntityComponentStore, o sop) string {
	switch o.K {
	case "add":
		err := st.Add(&hagallpb.EntityComponent{EntityComponentTypeId: 1, EntityId: o.E, Data: []byte(o.Data)})
		if err == nil {
			return "ok"
		}
		return "conflict"
	case "upd":
		if st.Update(&hagallpb.EntityComponent{EntityComponentTypeId: 1, EntityId: o.E, Data: []byte(o.Data)}) == nil {
			return "ok"
		}
		return "absent"
	case "del":
		return fmt.Sprint(st.Delete(1, o.E))
	case "list":
		var p []string
		for _, c := range st.List(1) {
			p = append(p, fmt.Sprintf("%d=%s", c.EntityId, c.Data))
		}
		sort.Strings(p)
		return strings.Join(p, ",")
	case "addtype":
		return fmt.Sprint(st.AddType(o.Data))
	case "sub":
		if st.Subscribe(1, o.E) == nil {
			return "ok"
		}
		return "err"
	case "unsub":
		st.Unsubscribe(1, o.E)
		return "ok"
	case "notify":
		var got []string
		st.Notify(1, func(ids []uint32) {
			for _, id := range ids {
				got = append(got, fmt.Sprint(id))
			}
		})
		sort.Strings(got)
		return strings.Join(got, ",")
	}
	return "?"
}

func runStoreProgram(progs [][]sop, ch vrt.Chooser) (out explore.Outcome) {
	s := vrt.NewSched(ch)
	vrt.ResetClasses()
	vrt.S = s
	sess := models.NewSession(1, time.Hour)
	st := sess.GetEntityComponents()
	st.AddType("T")
	var hist []porcupine.Operation
	clock := int64(0)
	for ti, prog := range progs {
		ti, prog := ti, prog
		s.Spawn(fmt.Sprintf("t%d", ti), func() {
			for _, o := range prog {
				clock++
				call := clock
				res := applyStoreOp(st, o)
				clock++
				hist = append(hist, porcupine.Operation{ClientId: ti, Input: o, Call: call, Output: res, Return: clock})
			}
		})
	}
	s.ForgetLastRun()
	s.RunQuiescent()
	var viol []explore.Violation
	if stk := stuck(s); len(stk) > 0 {
		viol = append(viol, explore.Violation{Oracle: "deadlock", Detail: "component-store", Info: fmt.Sprint(stk)})
		s.Abort()
	} else if !porcupine.CheckOperations(storeModel, hist) {
		var hs []string
		for _, h := range hist {
			hs = append(hs, fmt.Sprintf("t%d[%d,%d]%v=%v", h.ClientId, h.Call, h.Return, h.Input, h.Output))
		}
		kinds := map[string]bool{}
		for _, p := range progs {
			for _, o := range p {
				kinds[o.K] = true
			}
		}
		var ks []string
		for k := range kinds {
			ks = append(ks, k)
		}
		sort.Strings(ks)
		viol = append(viol, explore.Violation{Oracle: "linearizability", Detail: "component-store:" + strings.Join(ks, "+"), Info: "history is not linearizable w.r.t. the map specification: " + strings.Join(hs, " ")})
	}
	s.Join()
	sess.Close()
	vrt.S = nil
	var ks []string
	for _, h := range hist {
		ks = append(ks, fmt.Sprintf("%d%v=%v", h.ClientId, h.Input, h.Output))
	}
	sort.Strings(ks)
	return explore.Outcome{Points: s.Points, Steps: s.Steps, Violations: viol, Key: strings.Join(ks, ";")}
}

func init() {
	check.Register("store-lin", func(j *check.Job) *check.Result {
		res := &check.Result{Exhaustive: true, Extra: map[string]any{}, Bound: 2}
		menu := []sop{{"add", 1, "x"}, {"add", 1, "y"}, {"upd", 1, "u"}, {"del", 1, ""}, {"list", 0, ""}, {"addtype", 0, "U"}, {"add", 2, "z"}, {"sub", 7, ""}, {"unsub", 7, ""}, {"notify", 0, ""}}
		var deadline time.Time
		if j.BudgetS > 0 {
			deadline = time.Now().Add(time.Duration(j.BudgetS) * time.Second)
		}
		seen := map[string]bool{}
		outcomes := map[string]bool{}
		run := func(progs [][]sop) {
			if !res.Exhaustive {
				return
			}
			st := explore.Explore(func(ch vrt.Chooser) explore.Outcome { return runStoreProgram(progs, ch) }, explore.Config{Bound: 2, Deadline: deadline})
			res.Executions += st.Executions
			res.States += st.Executions
			res.Transitions += st.Points + st.Executions
			res.Steps += st.Steps
			if !st.Exhaustive {
				res.Exhaustive, res.CapHit = false, st.CapHit
			}
			for k := range st.Outcomes {
				outcomes[k] = true
			}
			for _, f := range st.Found {
				if !seen[f.Oracle+f.Detail] {
					seen[f.Oracle+f.Detail] = true
					res.Violations = append(res.Violations, check.Violation{Scenario: j.Name, Oracle: f.Oracle, Detail: f.Detail, Info: f.Info})
				}
			}
		}
		// two threads, up to two operations each; the first thread starts with a mutation
		for _, a1 := range menu[:4] {
			for _, b1 := range menu {
				run([][]sop{{a1}, {b1}})
				for _, a2 := range menu[:6] {
					run([][]sop{{a1, a2}, {b1}})
					for _, b2 := range menu[:6] {
						run([][]sop{{a1, a2}, {b1, b2}})
					}
				}
			}
		}
		// three threads, one operation each
		for _, a := range menu[:4] {
			for _, b := range menu[:7] {
				for _, c := range menu {
					run([][]sop{{a}, {b}, {c}})
				}
			}
		}
		res.Outcomes = len(outcomes)
		res.Samples = []any{map[string]any{"threads": "t0: add(e1,x) del(e1) | t1: upd(e1,u) list", "spec": "map keyed by entity + type registry + subscriber set"}}
		_ = json.Marshal
		return res
	})
}
