package props

import (
	"fmt"
	"os"
	"regexp"
	"sort"
	"strings"
)

// ---- race oracle: Go's race detector observing the serialised executions --------------
//
// The -race build of the explorer runs exactly the same schedules; the hand-off
// between threads creates no happens-before edge (vrt), so the detector sees
// only hagall's own synchronisation. Reports are read from GORACE's log file
// after every execution and attributed to that execution.

type raceWatch struct {
	path string
	off  int64
}

func newRaceWatch() *raceWatch {
	m := regexp.MustCompile(`log_path=(\S+)`).FindStringSubmatch(os.Getenv("GORACE"))
	if m == nil {
		return nil
	}
	return &raceWatch{path: fmt.Sprintf("%s.%d", m[1], os.Getpid())}
}

type raceReport struct {
	Sig  string // "siteA <-> siteB", address-free
	Text string
}

var goroutineRe = regexp.MustCompile(`by (main goroutine|goroutine \d+)`)

// fresh returns the reports written since the last call that are races
// between two hagall threads at hagall access sites.
func (rw *raceWatch) fresh() []raceReport {
	if rw == nil {
		return nil
	}
	b, err := os.ReadFile(rw.path)
	if err != nil || int64(len(b)) <= rw.off {
		return nil
	}
	text := string(b[rw.off:])
	rw.off = int64(len(b))
	var out []raceReport
	for _, rep := range strings.Split(text, "==================") {
		if !strings.Contains(rep, "WARNING: DATA RACE") {
			continue
		}
		// the two access blocks precede the "Goroutine N (...) created at:" blocks
		body := rep
		if i := strings.Index(body, "\nGoroutine "); i >= 0 {
			body = body[:i]
		}
		blocks := strings.Split(strings.TrimSpace(body), "\n\n")
		var sites []string
		ok := true
		for _, blk := range blocks {
			lines := strings.Split(blk, "\n")
			hdr := -1
			for i, l := range lines {
				if strings.Contains(l, " at 0x") && goroutineRe.MatchString(l) {
					hdr = i
					break
				}
			}
			if hdr < 0 {
				continue
			}
			if strings.Contains(lines[hdr], "main goroutine") {
				ok = false // the harness looking at server memory: not a race of the program
				break
			}
			// the access site: the innermost frame inside the program under test.
			// Frames of libraries it calls into (protobuf marshalling a message
			// another thread is writing, ...) are walked through; a harness frame
			// below them means the access is the harness's own (pipe buffers,
			// oracles, client pumps).
			site := ""
			for _, l := range lines[hdr+1:] {
				l = strings.TrimSpace(l)
				if l == "" || strings.HasPrefix(l, "/") {
					continue
				}
				if i := strings.LastIndex(l, "("); i > 0 {
					l = l[:i]
				}
				if strings.HasPrefix(l, "verif/vrt/vatomic") {
					continue // the shim standing in for sync/atomic: the access is the program's
				}
				if strings.HasPrefix(l, "verif/") {
					break
				}
				if strings.HasPrefix(l, "github.com/aukilabs/hagall") || strings.HasPrefix(l, "golang.org/x/net/websocket") {
					site = l
					break
				}
			}
			if site == "" {
				ok = false // access made by harness code (pipe buffers, oracles)
				break
			}
			site = site[strings.LastIndex(site, "/")+1:]
			sites = append(sites, site)
		}
		if !ok || len(sites) != 2 {
			continue
		}
		sort.Strings(sites)
		if len(rep) > 6000 {
			rep = rep[:6000]
		}
		out = append(out, raceReport{Sig: sites[0] + " <-> " + sites[1], Text: rep})
	}
	return out
}
