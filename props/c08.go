package props

import (
	"encoding/json"
	"fmt"
	"math"
	"os"
	"sort"
	"strings"
	"time"

	"github.com/aukilabs/hagall-common/messages/dagazpb"
	"github.com/aukilabs/hagall-common/messages/hagallpb"
	"github.com/aukilabs/hagall-common/messages/odalpb"
	"github.com/aukilabs/hagall-common/messages/vikjapb"
	"github.com/ethereum/go-ethereum/crypto"
	"google.golang.org/protobuf/proto"
	"google.golang.org/protobuf/types/known/timestamppb"

	"verif/check"
	"verif/explore"
	"verif/vrt"
	"verif/world"
)

// ---- C08: no client behaviour crashes the server, wedges a handler or leaves a ghost ----

// rinput is one thing the offending client does.
type rinput struct {
	Name string
	Raw  [][]byte // raw bytes written to the connection (frames)
	// Act, if set, is an environment action instead of bytes.
	Act func(x *Ctx, o *world.Client)
}

func msgFrame(m proto.Message) []byte {
	b, _ := proto.Marshal(m)
	return world.Frame(2, b)
}

var inf32 = float32(math.Inf(1))
var nan32 = float32(math.NaN())

// messageAlphabet: every message type (core and modules) with optional fields
// absent or at boundary values. ts supplies timestamps.
func messageAlphabet(ts func() *timestamppb.Timestamp, rid func() uint32) []rinput {
	var out []rinput
	add := func(name string, m proto.Message) { out = append(out, rinput{Name: name, Raw: [][]byte{msgFrame(m)}}) }
	long := strings.Repeat("x", 65536)
	T := hagallpb.MsgType_MSG_TYPE_ERROR_RESPONSE
	_ = T
	for _, sid := range []string{"", "nope", long} {
		add("join:"+short(sid), &hagallpb.ParticipantJoinRequest{Type: hagallpb.MsgType_MSG_TYPE_PARTICIPANT_JOIN_REQUEST, Timestamp: ts(), RequestId: rid(), SessionId: sid})
	}
	poses := map[string]*hagallpb.Pose{"nil": nil, "zero": {}, "nan": {Px: nan32, Rw: nan32}, "inf": {Px: inf32, Py: -inf32}, "huge": {Px: math.MaxFloat32, Pz: -math.MaxFloat32}}
	for n, p := range poses {
		add("eadd:pose-"+n, &hagallpb.EntityAddRequest{Type: hagallpb.MsgType_MSG_TYPE_ENTITY_ADD_REQUEST, Timestamp: ts(), RequestId: rid(), Pose: p, Flag: hagallpb.EntityFlag(math.MaxInt32)})
		for _, e := range []uint32{0, 1, 2, math.MaxUint32} {
			add(fmt.Sprintf("pose:%s/e%d", n, e), &hagallpb.EntityUpdatePose{Type: hagallpb.MsgType_MSG_TYPE_ENTITY_UPDATE_POSE, Timestamp: ts(), EntityId: e, Pose: p})
		}
	}
	for _, e := range []uint32{0, 1, 2, math.MaxUint32} {
		add(fmt.Sprintf("edel:e%d", e), &hagallpb.EntityDeleteRequest{Type: hagallpb.MsgType_MSG_TYPE_ENTITY_DELETE_REQUEST, Timestamp: ts(), RequestId: rid(), EntityId: e})
	}
	for _, n := range []int{0, 1, 10240, 10241, 65536} {
		for _, rec := range [][]uint32{nil, {0}, {1, 1, 2, math.MaxUint32}} {
			add(fmt.Sprintf("custom:%d/%v", n, rec), &hagallpb.CustomMessage{Type: hagallpb.MsgType_MSG_TYPE_CUSTOM_MESSAGE, Timestamp: ts(), Body: make([]byte, n), ParticipantIds: rec})
		}
	}
	for _, name := range []string{"", "T", long} {
		add("tadd:"+short(name), &hagallpb.EntityComponentTypeAddRequest{Type: hagallpb.MsgType_MSG_TYPE_ENTITY_COMPONENT_TYPE_ADD_REQUEST, Timestamp: ts(), RequestId: rid(), EntityComponentTypeName: name})
		add("getid:"+short(name), &hagallpb.EntityComponentTypeGetIdRequest{Type: hagallpb.MsgType_MSG_TYPE_ENTITY_COMPONENT_TYPE_GET_ID_REQUEST, Timestamp: ts(), RequestId: rid(), EntityComponentTypeName: name})
	}
	ids := []uint32{0, 1, math.MaxUint32}
	for _, t := range ids {
		add(fmt.Sprintf("getname:%d", t), &hagallpb.EntityComponentTypeGetNameRequest{Type: hagallpb.MsgType_MSG_TYPE_ENTITY_COMPONENT_TYPE_GET_NAME_REQUEST, Timestamp: ts(), RequestId: rid(), EntityComponentTypeId: t})
		add(fmt.Sprintf("clist:%d", t), &hagallpb.EntityComponentListRequest{Type: hagallpb.MsgType_MSG_TYPE_ENTITY_COMPONENT_LIST_REQUEST, Timestamp: ts(), RequestId: rid(), EntityComponentTypeId: t})
		add(fmt.Sprintf("sub:%d", t), &hagallpb.EntityComponentTypeSubscribeRequest{Type: hagallpb.MsgType_MSG_TYPE_ENTITY_COMPONENT_TYPE_SUBSCRIBE_REQUEST, Timestamp: ts(), RequestId: rid(), EntityComponentTypeId: t})
		add(fmt.Sprintf("unsub:%d", t), &hagallpb.EntityComponentTypeUnsubscribeRequest{Type: hagallpb.MsgType_MSG_TYPE_ENTITY_COMPONENT_TYPE_UNSUBSCRIBE_REQUEST, Timestamp: ts(), RequestId: rid(), EntityComponentTypeId: t})
		for _, e := range ids {
			for _, d := range [][]byte{nil, make([]byte, 65536)} {
				add(fmt.Sprintf("cadd:%d/%d/%d", t, e, len(d)), &hagallpb.EntityComponentAddRequest{Type: hagallpb.MsgType_MSG_TYPE_ENTITY_COMPONENT_ADD_REQUEST, Timestamp: ts(), RequestId: rid(), EntityComponentTypeId: t, EntityId: e, Data: d})
				add(fmt.Sprintf("cupd:%d/%d/%d", t, e, len(d)), &hagallpb.EntityComponentUpdate{Type: hagallpb.MsgType_MSG_TYPE_ENTITY_COMPONENT_UPDATE, Timestamp: ts(), EntityComponentTypeId: t, EntityId: e, Data: d})
			}
			add(fmt.Sprintf("cdel:%d/%d", t, e), &hagallpb.EntityComponentDeleteRequest{Type: hagallpb.MsgType_MSG_TYPE_ENTITY_COMPONENT_DELETE_REQUEST, Timestamp: ts(), RequestId: rid(), EntityComponentTypeId: t, EntityId: e})
		}
	}
	add("ping", &hagallpb.Request{Type: hagallpb.MsgType_MSG_TYPE_PING_REQUEST, Timestamp: ts(), RequestId: rid()})
	for _, id := range []uint32{0, 7, math.MaxUint32} {
		add(fmt.Sprintf("ping-response:%d", id), &hagallpb.Response{Type: hagallpb.MsgType_MSG_TYPE_PING_RESPONSE, Timestamp: ts(), RequestId: id})
	}
	for _, n := range []uint32{0, 2, 3, 50, 51, math.MaxUint32} {
		for _, wlt := range []string{"", "0xw", long} {
			add(fmt.Sprintf("latency:%d/%s", n, short(wlt)), &hagallpb.SignedLatencyRequest{Type: hagallpb.MsgType_MSG_TYPE_SIGNED_LATENCY_REQUEST, Timestamp: ts(), RequestId: rid(), IterationCount: n, WalletAddress: wlt})
		}
	}
	h := crypto.Keccak256([]byte("r"))
	for n, r := range map[string]*hagallpb.ReceiptRequest{
		"all-empty": {}, "no-hash": {Receipt: "r", Signature: []byte{1}}, "garbage": {Receipt: "r", Hash: h, Signature: make([]byte, 65)}, "long": {Receipt: long, Hash: make([]byte, 65536), Signature: make([]byte, 65536)},
	} {
		r.Type, r.Timestamp, r.RequestId = hagallpb.MsgType_MSG_TYPE_RECEIPT_REQUEST, ts(), rid()
		add("receipt:"+n, r)
	}
	// vikja
	for n, a := range map[string]*vikjapb.EntityAction{
		"nil": nil, "empty": {}, "no-ts": {EntityId: 1, Name: "n"}, "no-name": {EntityId: 1, Timestamp: ts()}, "unknown-entity": {EntityId: math.MaxUint32, Name: "n", Timestamp: ts()},
		"ok": {EntityId: 1, Name: "n", Timestamp: ts(), Data: make([]byte, 65536)}, "negative-ts": {EntityId: 1, Name: "n", Timestamp: &timestamppb.Timestamp{Seconds: math.MinInt64, Nanos: -1}},
	} {
		add("action:"+n, &vikjapb.EntityActionRequest{Type: vikjapb.MsgType_MSG_TYPE_VIKJA_ENTITY_ACTION_REQUEST, Timestamp: ts(), RequestId: rid(), EntityAction: a})
	}
	for _, e := range []uint32{0, 1, 2, math.MaxUint32} {
		for _, as := range []string{"", "a", long} {
			add(fmt.Sprintf("asset:e%d/%s", e, short(as)), &odalpb.AssetInstanceAddRequest{Type: odalpb.MsgType_MSG_TYPE_ODAL_ASSET_INSTANCE_ADD_REQUEST, Timestamp: ts(), RequestId: rid(), EntityId: e, AssetId: as})
		}
	}
	// dagaz
	pt := func(x, y, z float32) *dagazpb.Point { return &dagazpb.Point{X: x, Y: y, Z: z} }
	quads := map[string]*dagazpb.Quad{
		"nil-fields": {}, "nil-extents": {Center: pt(0, 0, 0)}, "nil-center": {Extents: pt(1, 0, 1)}, "ok": {Center: pt(1, 0, 1), Extents: pt(0.5, 0, 0.5)},
		"nan": {Center: pt(nan32, 0, 0), Extents: pt(1, 0, 1)}, "inf": {Center: pt(inf32, 0, -inf32), Extents: pt(1, 0, 1)}, "inf-extents": {Center: pt(0, 0, 0), Extents: pt(inf32, 0, inf32)},
		"huge-1e30": {Center: pt(1e30, 0, -1e30), Extents: pt(1, 0, 1)}, "negative-extents": {Center: pt(0, 0, 0), Extents: pt(-1, 0, -1)}, "zero-extents": {Center: pt(3, 0, 3), Extents: pt(0, 0, 0)},
	}
	for n, q := range quads {
		add("quad:"+n, &dagazpb.DagazQuadSample{Type: dagazpb.MsgType_MSG_TYPE_DAGAZ_QUAD_SAMPLE, Timestamp: ts(), Samples: []*dagazpb.Quad{q}})
	}
	add("quad:nil-sample", &dagazpb.DagazQuadSample{Type: dagazpb.MsgType_MSG_TYPE_DAGAZ_QUAD_SAMPLE, Timestamp: ts(), Samples: []*dagazpb.Quad{nil}})
	add("quad:none", &dagazpb.DagazQuadSample{Type: dagazpb.MsgType_MSG_TYPE_DAGAZ_QUAD_SAMPLE, Timestamp: ts()})
	rays := map[string]*dagazpb.Ray{"nil": nil, "nil-points": {}, "nil-to": {From: pt(0, 1, 0)}, "vertical": {From: pt(1, 1, 1), To: pt(1, -1, 1)}, "nan": {From: pt(nan32, 0, 0), To: pt(0, nan32, 0)}, "inf": {From: pt(-inf32, 0, 0), To: pt(inf32, 0, 0)}, "huge": {From: pt(-1e30, 0, -1e30), To: pt(1e30, 0, 1e30)}, "slanted": {From: pt(-3, 1, -3), To: pt(9, -1, 7)}}
	for n, r := range rays {
		add("ground:"+n, &dagazpb.DagazGetGroundPlaneRequest{Type: dagazpb.MsgType_MSG_TYPE_DAGAZ_GET_GROUND_PLANE_REQUEST, Timestamp: ts(), RequestId: rid(), Ray: r})
	}
	for n, mm := range map[string][2]*dagazpb.Point{"nil": {nil, nil}, "nil-max": {pt(0, 0, 0), nil}, "inverted": {pt(5, 0, 5), pt(-5, 0, -5)}, "nan": {pt(nan32, 0, nan32), pt(nan32, 0, nan32)}, "inf": {pt(-inf32, 0, -inf32), pt(inf32, 0, inf32)}, "huge": {pt(-1e30, 0, -1e30), pt(1e30, 0, 1e30)}, "ok": {pt(-10, 0, -10), pt(10, 0, 10)}} {
		add("region:"+n, &dagazpb.DagazGetRegionRequest{Type: dagazpb.MsgType_MSG_TYPE_DAGAZ_GET_REGION_REQUEST, Timestamp: ts(), RequestId: rid(), Min: mm[0], Max: mm[1]})
	}
	add("debuginfo", &dagazpb.DagazGetDebugInfoRequest{Type: dagazpb.MsgType_MSG_TYPE_DAGAZ_GET_DEBUG_INFO_REQUEST, Timestamp: ts(), RequestId: rid()})
	// types the server does not implement / only sends
	for _, t := range []int32{2, 4, 5, 6, 7, 13, 43, 99, 100, 150, 302, 999, -1, math.MaxInt32} {
		add(fmt.Sprintf("type:%d", t), &hagallpb.Request{Type: hagallpb.MsgType(t), Timestamp: ts(), RequestId: rid()})
	}
	add("no-timestamp", &hagallpb.Request{Type: hagallpb.MsgType_MSG_TYPE_PING_REQUEST, RequestId: rid()})
	// Go map iteration above is random: fix the order
	sort.SliceStable(out, func(i, j int) bool { return out[i].Name < out[j].Name })
	return out
}

func extremeInput(name string) bool {
	if !(strings.HasPrefix(name, "quad:") || strings.HasPrefix(name, "ground:") || strings.HasPrefix(name, "region:")) {
		return false
	}
	return strings.Contains(name, "huge") || strings.Contains(name, "inf") || strings.Contains(name, "nan")
}

func short(s string) string {
	if len(s) > 8 {
		return fmt.Sprintf("len%d", len(s))
	}
	return s
}

// frameAlphabet: byte-level inputs.
func frameAlphabet(ts func() *timestamppb.Timestamp) []rinput {
	var out []rinput
	ping := func() []byte {
		b, _ := proto.Marshal(&hagallpb.Request{Type: hagallpb.MsgType_MSG_TYPE_PING_REQUEST, Timestamp: ts(), RequestId: 5})
		return b
	}
	good := world.Frame(2, ping())
	for i := 1; i < len(good); i++ {
		out = append(out, rinput{Name: fmt.Sprintf("prefix:%d/%d-then-close", i, len(good)), Raw: [][]byte{good[:i]}, Act: func(x *Ctx, o *world.Client) { o.Close() }})
	}
	for i := 0; i < len(good) && i < 6+16; i++ {
		for _, v := range []byte{0x00, 0x7f, 0x80, 0xff} {
			if good[i] == v {
				continue
			}
			b := append([]byte{}, good...)
			b[i] = v
			out = append(out, rinput{Name: fmt.Sprintf("subst:%d=%02x", i, v), Raw: [][]byte{b}})
		}
	}
	unmasked := append([]byte{0x82, byte(len(ping()))}, ping()...)
	out = append(out, rinput{Name: "unmasked-frame", Raw: [][]byte{unmasked}})
	for _, op := range []byte{0, 1, 3, 8, 9, 10, 15} {
		out = append(out, rinput{Name: fmt.Sprintf("opcode:%d", op), Raw: [][]byte{world.Frame(op, ping())}})
	}
	out = append(out,
		rinput{Name: "fragmented", Raw: [][]byte{append([]byte{0x02}, world.Frame(2, ping()[:5])[1:]...), append([]byte{0x80}, world.Frame(0, ping()[5:])[1:]...)}},
		rinput{Name: "length-127-huge", Raw: [][]byte{{0x82, 0xff, 0x7f, 0xff, 0xff, 0xff, 0xff, 0xff, 0xff, 0xff, 0, 0, 0, 0, 1, 2, 3}}},
		rinput{Name: "length-126-short-body", Raw: [][]byte{{0x82, 0xfe, 0xff, 0xff, 0, 0, 0, 0, 1, 2, 3}}, Act: func(x *Ctx, o *world.Client) { o.Close() }},
		rinput{Name: "garbage-payload", Raw: [][]byte{world.Frame(2, []byte{0xff, 0xff, 0xff, 0xff, 0x01})}},
		rinput{Name: "empty-payload", Raw: [][]byte{world.Frame(2, nil)}},
		rinput{Name: "http-again", Raw: [][]byte{[]byte("GET / HTTP/1.1\r\n\r\n")}},
		rinput{Name: "close-abruptly", Act: func(x *Ctx, o *world.Client) { o.Close() }},
		rinput{Name: "receive-error", Act: func(x *Ctx, o *world.Client) { o.Pipe.InjectReadError() }},
	)
	return out
}

type robustParams struct {
	Point  string `json:"point"` // unjoined, alone, peer, measuring
	Set    string `json:"set"`   // messages, frames, bursts, idle, faults
	Shard  int    `json:"shard"`
	Shards int    `json:"shards"`
	Bound  int    `json:"bound"`
}

type robustWorld struct {
	x       *Ctx
	w       *world.World
	o, p, v *world.Client // offender, peer, witness
	opid    uint32
	baseCli float64
	fail    func(oracle, detail, f string, a ...any)
	point   string
	// rootCause: a panic or a deadlock has been reported for this execution
	rootCause bool
	// extraDeletes: non-persistent entities the script may have added (each
	// either exists at the departure or does not, depending on the schedule)
	extraDeletes int
}

func newRobustWorld(point string, ch vrt.Chooser) *robustWorld {
	return newRobustWorldOpt(point, ch, false)
}

// keepNonPing removes ping answers from a client's log (the peers ping to stay
// awake while the offender idles).
func keepNonPing(c *world.Client) {
	var keep []*world.Recv
	for _, m := range c.All() {
		if m.Type != 39 && m.Type != 1 {
			keep = append(keep, m)
		}
	}
	c.Log = append(c.Log[:0], keep...)
	c.ResetTaken()
}

// newRobustWorldOpt: with exploreOffender the offender's receiver, sender and
// summary-worker threads are scheduled like any other thread (S3); everybody
// else's plumbing threads stay eager.
func newRobustWorldOpt(point string, ch vrt.Chooser, exploreOffender bool) *robustWorld {
	key, _ := crypto.HexToECDSA(c18Key)
	w := world.New(world.Config{Prod: true, Modules: []string{"vikja", "odal", "dagaz"}, PrivateKey: key, IdleTimeout: 5 * time.Minute, SyncInterval: time.Minute}, ch)
	s := w.S
	s.EagerLabels = []string{eagerPrefix}
	s.NoPreempt = true
	x := &Ctx{W: w, C: map[string]*world.Client{}, J: map[string]JoinInfo{}, Vars: map[string]any{}}
	r := &robustWorld{x: x, w: w, point: point}
	r.fail = func(oracle, detail, f string, a ...any) {
		x.V = append(x.V, explore.Violation{Oracle: oracle, Detail: detail, Info: fmt.Sprintf(f, a...)})
	}
	r.baseCli = gauge("ws_connected_clients")
	x.Base.Sessions = gauge("session_count")
	x.Base.SessSeries, x.Base.ClientSeries = gaugeSeries("session_count"), gaugeSeries("ws_connected_clients")
	x.conn("v")
	if exploreOffender {
		var root *vrt.Thread
		s.EagerFn = func(t *vrt.Thread) bool {
			if !strings.HasPrefix(t.Label, eagerPrefix) {
				return false
			}
			return root == nil || t.Root() != root
		}
		x.C["o"] = w.Connect("o")
		root = x.C["o"].Thread
		w.Run()
		x.C["o"].Take()
	} else {
		x.conn("o")
	}
	r.v, r.o = x.C["v"], x.C["o"]
	x.join("v", "")
	if point != "unjoined" {
		x.join("o", "")
		r.opid = x.J["o"].ParticipantID
		// the offender owns one non-persistent and one persistent entity
		for _, persist := range []bool{false, true} {
			r.o.SendMsg(&hagallpb.EntityAddRequest{Type: hagallpb.MsgType_MSG_TYPE_ENTITY_ADD_REQUEST, Timestamp: w.NextTS(), RequestId: r.o.NextReqID(), Persist: persist})
		}
		w.Run()
	}
	if point == "peer" || point == "measuring" {
		x.conn("p")
		r.p = x.C["p"]
		x.join("p", x.J["o"].SessionID)
	}
	if point == "measuring" {
		r.o.SendMsg(&hagallpb.SignedLatencyRequest{Type: hagallpb.MsgType_MSG_TYPE_SIGNED_LATENCY_REQUEST, Timestamp: w.NextTS(), RequestId: r.o.NextReqID(), IterationCount: 3, WalletAddress: "0xw"})
		w.Run()
	}
	for _, c := range w.Clients {
		c.Take()
	}
	return r
}

// judge applies the C08 oracles after the offender did its thing.
func (r *robustWorld) judge(input string, mustEnd bool) {
	w, s := r.w, r.w.S
	for _, t := range s.Threads {
		if t.Panic != nil {
			lab := t.Label
			if strings.HasPrefix(lab, "conn:") {
				lab = "conn"
			}
			r.fail("panic", "thread-panicked:"+lab+":"+panicClass(fmt.Sprint(t.Panic)), "%s: a goroutine outside net/http's recovery panicked (the process would crash): %v\n%s", input, t.Panic, firstLines(t.PanicStk, 12))
		}
	}
	for _, c := range w.Clients {
		if c.HandlerPanic != nil {
			r.fail("panic", "handler-panicked:"+panicSite(c.HandlerPanicStk), "%s: the connection handler of %s panicked (recovered by net/http: no normal teardown): %v\n%s", input, c.Name, c.HandlerPanic, firstLines(c.HandlerPanicStk, 14))
		}
	}
	if st := stuck(s); len(st) > 0 {
		r.fail("deadlock", stuckClass(s), "%s: threads blocked forever: %v", input, st)
		r.rootCause = true
		return
	}
	if len(r.x.V) > 0 {
		// a goroutine panicked: the ghost participant, the gauges and the
		// leaked workers that follow are consequences, not separate findings
		r.rootCause = true
		return
	}
	o := r.o
	ended := o.Pipe.ServerClosed() || o.HandlerReturned
	if mustEnd && !ended {
		r.fail("teardown", "connection-not-ended", "%s: the connection must be ended but is still open", input)
	}
	if ended {
		if o.Disconnects != 1 && o.HandlerPanic == nil {
			r.fail("teardown", fmt.Sprintf("disconnect-handled-%d-times", o.Disconnects), "%s: HandleDisconnect ran %d times", input, o.Disconnects)
		}
		if !o.HandlerReturned {
			r.fail("teardown", "handler-did-not-return", "%s: the connection is closed but websocket.Handle has not returned", input)
		}
		for _, t := range s.Threads {
			if strings.HasSuffix(t.Label, frameWorkerSuffix) {
				continue // the session's worker, not the connection's: lives as long as the session has members
			}
			if !t.Done() && t.Root() == o.Thread {
				r.fail("teardown", "goroutine-left:"+t.Label, "%s: goroutine of the ended connection still alive: %s", input, t.Describe())
			}
		}
		if r.p != nil && r.opid != 0 && !r.p.Closed {
			leaves, dels := 0, 0
			for _, m := range r.p.Take() {
				switch v := m.Msg.(type) {
				case *hagallpb.ParticipantLeaveBroadcast:
					if v.ParticipantId == r.opid {
						leaves++
					}
				case *hagallpb.EntityDeleteBroadcast:
					dels++
				}
			}
			if leaves != 1 || dels < 1 || dels > 1+r.extraDeletes {
				r.fail("departure", fmt.Sprintf("peer-told-%d-leaves-%d-deletes", leaves, dels), "%s: the peer must be told once about the departure and once about the removed non-persistent entity; got %d / %d", input, leaves, dels)
			}
		}
		if r.opid != 0 {
			if sess, ok := w.Store.GetByGlobalID(r.x.J["o"].SessionID); ok {
				for _, pp := range sess.GetParticipants() {
					if pp.ID == r.opid {
						r.fail("ghost", "participant-still-in-session", "%s: the connection is gone but participant %d is still a member of its session", input, r.opid)
					}
				}
			}
		}
	} else {
		// still connected: it must still be served
		rid := o.NextReqID()
		o.SendMsg(&hagallpb.Request{Type: hagallpb.MsgType_MSG_TYPE_PING_REQUEST, Timestamp: w.NextTS(), RequestId: rid})
		w.Run()
		if len(respFor(o.Take(), rid)) != 1 && !o.Pipe.ServerClosed() {
			r.fail("wedge", "connection-open-but-not-served", "%s: the connection stays open but a ping is not answered", input)
		}
	}
	live := 0
	for _, c := range w.Clients {
		if c.HandlerEntered && !c.HandlerReturned {
			live++
		}
	}
	if g := gauge("ws_connected_clients") - r.baseCli; int(g) != live {
		r.fail("gauge", "connected-clients-gauge", "%s: ws_connected_clients is %v with %d connections being served", input, g, live)
	}
	// the witness in another session is unaffected
	rid := r.v.NextReqID()
	r.v.SendMsg(&hagallpb.Request{Type: hagallpb.MsgType_MSG_TYPE_PING_REQUEST, Timestamp: w.NextTS(), RequestId: rid})
	w.Run()
	var got []*world.Recv
	for _, m := range r.v.Take() {
		if m.Type != 1 { // SYNC_CLOCK heartbeats are not traffic
			got = append(got, m)
		}
	}
	if len(respFor(got, rid)) != 1 || len(got) != 1 {
		r.fail("witness", "witness-disturbed", "%s: the witness in another session got %d messages for its ping", input, len(got))
	}
	if sess, ok := w.Store.GetByGlobalID(r.x.J["v"].SessionID); !ok || sess.ParticipantCount() != 1 {
		r.fail("witness", "witness-session-changed", "%s: the witness's session changed", input)
	}
}

func (r *robustWorld) finish(input string) {
	left := r.w.Finish()
	if r.rootCause {
		return
	}
	if len(left) > 0 {
		r.fail("teardown", "threads-left:"+leftoverClass(left), "%s: after every client closed these threads never finished: %s", input, leftoverString(left))
	}
	if g := gauge("ws_connected_clients") - r.baseCli; g != 0 {
		r.fail("gauge", "connected-clients-gauge-final", "%s: all connections gone, ws_connected_clients off by %v", input, g)
	}
	if g := gauge("session_count") - r.x.Base.Sessions; g != 0 {
		r.fail("gauge", "session-gauge-final", "%s: all connections gone, session_count off by %v", input, g)
	}
	if len(r.x.V) == 0 && r.x.Base.ClientSeries != nil {
		// per series (one per app key): a connection counted in under one app key and out under another leaves the sum intact
		if d := seriesDrift("ws_connected_clients", r.x.Base.ClientSeries); len(d) > 0 {
			r.fail("gauge", "connected-clients-gauge-series-final", "%s: all connections gone, series of ws_connected_clients are off: %s", input, strings.Join(d, "; "))
		}
		if d := seriesDrift("session_count", r.x.Base.SessSeries); len(d) > 0 {
			r.fail("gauge", "session-gauge-series-final", "%s: all connections gone, series of session_count are off: %s", input, strings.Join(d, "; "))
		}
	}
}

func firstLines(s string, n int) string {
	ls := strings.Split(s, "\n")
	if len(ls) > n {
		ls = ls[:n]
	}
	return strings.Join(ls, "\n")
}

// panicSite: the first hagall function on a panic stack.
func panicSite(stk string) string {
	for _, l := range strings.Split(stk, "\n") {
		if strings.Contains(l, "github.com/aukilabs/hagall/") && strings.Contains(l, "(") && !strings.HasPrefix(l, "\t") {
			f := l[strings.LastIndex(l, "/")+1:]
			if i := strings.LastIndex(f, "("); i > 0 {
				f = f[:i]
			}
			return f
		}
	}
	return "unknown"
}

func runRobustInput(point string, in rinput, ch vrt.Chooser) explore.Outcome {
	r := newRobustWorld(point, ch)
	for _, b := range in.Raw {
		r.o.SendRaw(b)
	}
	if in.Act != nil {
		in.Act(r.x, r.o)
	}
	r.w.Run()
	// coalesced updates are processed at the next frame
	r.w.Tick(r.w.Cfg.FrameDuration)
	r.judge(in.Name, false)
	r.finish(in.Name)
	s := r.w.S
	return explore.Outcome{Points: s.Points, Steps: s.Steps, HitCap: s.HitCap, Violations: r.x.V, Key: fmt.Sprintf("%v/%d", r.o.Pipe.ServerClosed(), len(r.o.All()))}
}

func init() {
	check.Register("c08", func(j *check.Job) *check.Result {
		var p robustParams
		json.Unmarshal(j.Params, &p)
		res := &check.Result{Exhaustive: true, Extra: map[string]any{"point": p.Point, "set": p.Set}}
		seen := map[string]bool{}
		outcomes := map[string]bool{}
		collect := func(name string, out explore.Outcome) {
			res.Executions++
			res.States++
			res.Transitions += 1 + len(out.Points)
			res.Steps += out.Steps
			outcomes[name+out.Key] = true
			for _, v := range out.Violations {
				if !seen[v.Oracle+v.Detail] {
					seen[v.Oracle+v.Detail] = true
					hb, _ := json.Marshal(name)
					res.Violations = append(res.Violations, check.Violation{Scenario: j.Name, Oracle: v.Oracle, Detail: v.Detail, Info: v.Info, Replay: &check.Replay{History: hb}})
				}
			}
		}
		n := int64(0)
		ts := func() *timestamppb.Timestamp { n++; return &timestamppb.Timestamp{Seconds: 5_000_000 + n} }
		ridc := uint32(900000)
		rid := func() uint32 { ridc++; return ridc }
		var inputs []rinput
		switch p.Set {
		case "messages", "extreme":
			for _, in := range messageAlphabet(ts, rid) {
				// extreme ground-plane inputs may keep a handler busy forever: each
				// runs in a job of its own so that a watchdog exit costs nothing else
				if extremeInput(in.Name) == (p.Set == "extreme") {
					inputs = append(inputs, in)
				}
			}
		case "frames":
			inputs = frameAlphabet(ts)
		case "bursts":
			for k := 1; k <= 12; k++ {
				var raw [][]byte
				for i := 0; i < k; i++ {
					raw = append(raw, msgFrame(&hagallpb.ReceiptRequest{Type: hagallpb.MsgType_MSG_TYPE_RECEIPT_REQUEST, Timestamp: ts(), RequestId: rid()}))
				}
				inputs = append(inputs, rinput{Name: fmt.Sprintf("burst:%d-failing-receipts", k), Raw: raw})
				var raw2 [][]byte
				for i := 0; i < k; i++ {
					raw2 = append(raw2, msgFrame(&hagallpb.EntityDeleteRequest{Type: hagallpb.MsgType_MSG_TYPE_ENTITY_DELETE_REQUEST, Timestamp: ts(), RequestId: rid(), EntityId: 1}))
				}
				if p.Point == "unjoined" {
					inputs = append(inputs, rinput{Name: fmt.Sprintf("burst:%d-session-requests-while-unjoined", k), Raw: raw2})
				}
				inputs = append(inputs, rinput{Name: fmt.Sprintf("burst:%d-failing-then-close", k), Raw: raw, Act: func(x *Ctx, o *world.Client) { o.Close() }})
			}
		}
		if j.Replay != nil {
			var name string
			json.Unmarshal(j.Replay.History, &name)
			for _, in := range inputs {
				if in.Name == name {
					out := runRobustInput(p.Point, in, &explore.FixedChooser{})
					for _, v := range out.Violations {
						fmt.Println("   !!", v.Oracle, v.Detail, v.Info)
						res.Violations = append(res.Violations, check.Violation{Scenario: j.Name, Oracle: v.Oracle, Detail: v.Detail, Info: v.Info})
					}
				}
			}
			res.Executions = 1
			return res
		}
		if p.Set == "idle" {
			runIdle(p.Point, collect)
		}
		for i, in := range inputs {
			if p.Shards > 1 && i%p.Shards != p.Shard {
				continue
			}
			if os.Getenv("C08DEBUG") != "" {
				fmt.Fprintln(os.Stderr, "input", in.Name)
			}
			collect(in.Name, runRobustInput(p.Point, in, &explore.FixedChooser{}))
		}
		res.Outcomes = len(outcomes)
		var names []string
		for i, in := range inputs {
			if i%37 == 0 {
				names = append(names, in.Name)
			}
		}
		res.Samples = []any{map[string]any{"point": p.Point, "inputs": names}}
		if len(names) == 0 {
			res.Samples = []any{map[string]any{"point": p.Point, "set": p.Set}}
		}
		sort.Slice(res.Violations, func(a, b int) bool { return res.Violations[a].Detail < res.Violations[b].Detail })
		return res
	})
	check.RegisterProp("C08", func(tier string) []check.Job {
		var jobs []check.Job
		for _, pt := range []string{"unjoined", "alone", "peer", "measuring"} {
			for sh := 0; sh < 2; sh++ {
				p, _ := json.Marshal(robustParams{Point: pt, Set: "messages", Shard: sh, Shards: 2})
				jobs = append(jobs, check.Job{Kind: "c08", Name: "IN:messages@" + pt, Params: p, CrashIsViolation: true})
			}
			if pt != "unjoined" {
				for sh := 0; sh < 11; sh++ {
					p, _ := json.Marshal(robustParams{Point: pt, Set: "extreme", Shard: sh, Shards: 11})
					jobs = append(jobs, check.Job{Kind: "c08", Name: "IN:extreme-groundplane@" + pt, Params: p, CrashIsViolation: true})
				}
			}
			p2, _ := json.Marshal(robustParams{Point: pt, Set: "frames"})
			p3, _ := json.Marshal(robustParams{Point: pt, Set: "bursts"})
			p4, _ := json.Marshal(robustParams{Point: pt, Set: "idle"})
			jobs = append(jobs, check.Job{Kind: "c08", Name: "IN:frames@" + pt, Params: p2, CrashIsViolation: true},
				check.Job{Kind: "c08", Name: "IN:bursts@" + pt, Params: p3, CrashIsViolation: true},
				check.Job{Kind: "c08", Name: "S3:idle@" + pt, Params: p4, CrashIsViolation: true})
		}
		// client behaviour that needs a schedule or a history to bite: joins, departures and
		// switches racing with other members' requests (production decoration; deadlock, panic
		// and teardown oracles), and session switches / closes with updates pending
		for _, p := range pairList {
			sel := false
			for _, r := range p {
				if r.Kind == "join" || r.Kind == "leave" || r.Kind == "switch" {
					sel = true
				}
			}
			if sel && len(p) == 2 {
				jobs = append(jobs, s2jobOpt(pairName(p...), 1, 300, true, false))
			}
		}
		d := 6
		if tier == "thorough" {
			d = 7
		}
		jobs = append(jobs, s1job("entities", d, []string{"C08"}, 8, 300), s1job("pose-churn", d, []string{"C08"}, 4, 300))
		return jobs
	}, check.PropInfo{
		Rule:        "per life-cycle point (before join, joined alone, joined with a peer, mid measurement), in the production decoration (logs + metrics, all modules): (a) every message type (core, vikja, odal, dagaz) with each optional field absent or at a boundary (nil sub-messages, NaN/Inf/huge floats, MaxUint32, 64 KiB strings), types the server does not implement; (b) byte level: every prefix of a frame then close, single-byte substitutions {00,7f,80,ff} in header and first 16 payload bytes, unmasked / text / ping / pong / close / continuation / reserved opcodes, fragmentation, oversize length, garbage; (c) bursts of 1..12 failing requests written before the main loop runs, with and without an abrupt close; (d) idle: silent for the timeout => disconnected, sending within it => not (virtual clock); (e) S2: every pair block with a join, a departure or a switch (production decoration, 1 preemption) and S1 families `entities`, `pose-churn` for deadlocks, goroutine panics and teardown leaks that need an interleaving or a history. Oracle: no goroutine panics (a panic recovered by net/http counts), no deadlock, the offending connection either stays served or is ended through the normal path exactly once (handler returned, goroutines gone, one HandleDisconnect, participant removed, peer told once), connected-clients gauge consistent, the witness in another session undisturbed, worker process alive.",
		Assumptions: []string{"in-memory pipe instead of TCP", "one offending input per execution; thread interleavings of the teardown are covered for the departure paths by the S2 blocks of C06/C07"},
	})
}

// runIdle: the idle timeout under the virtual clock.
func runIdle(point string, collect func(string, explore.Outcome)) {
	// (1) silent for the timeout: disconnected through the normal path
	r := newRobustWorld(point, &explore.FixedChooser{})
	// the witness keeps sending, so only the offender (and the peer) idle out
	idle := r.w.Cfg.IdleTimeout
	for i := 0; i < 3; i++ {
		r.w.Tick(idle / 3)
		r.v.SendMsg(&hagallpb.Request{Type: hagallpb.MsgType_MSG_TYPE_PING_REQUEST, Timestamp: r.w.NextTS(), RequestId: r.v.NextReqID()})
		if r.p != nil {
			r.p.SendMsg(&hagallpb.Request{Type: hagallpb.MsgType_MSG_TYPE_PING_REQUEST, Timestamp: r.w.NextTS(), RequestId: r.p.NextReqID()})
		}
		r.w.Run()
	}
	r.w.Tick(time.Second)
	r.v.Take()
	if r.p != nil {
		var keep []*world.Recv
		for _, m := range r.p.Take() {
			if m.Type != 39 {
				keep = append(keep, m)
			}
		}
		r.p.Log = append(r.p.Log[:0], keep...)
		r.p.ResetTaken()
	}
	if r.v.Pipe.ServerClosed() {
		r.fail("idle", "active-connection-idled-out", "the witness sent a message every third of the idle timeout and was disconnected")
	}
	r.judge("silent-for-the-idle-timeout", true)
	r.finish("silent-for-the-idle-timeout")
	collect("idle-silent", explore.Outcome{Steps: r.w.S.Steps, Violations: r.x.V, Key: "silent"})
	// (1b) silent, but traffic keeps being delivered TO it: relays are not activity of the client
	if point == "peer" {
		r = newRobustWorld(point, &explore.FixedChooser{})
		for i := 0; i < 6; i++ {
			r.w.Tick(idle / 3)
			r.v.SendMsg(&hagallpb.Request{Type: hagallpb.MsgType_MSG_TYPE_PING_REQUEST, Timestamp: r.w.NextTS(), RequestId: r.v.NextReqID()})
			r.p.SendMsg(&hagallpb.CustomMessage{Type: hagallpb.MsgType_MSG_TYPE_CUSTOM_MESSAGE, Timestamp: r.w.NextTS(), Body: []byte("keepalive?")})
			r.w.Run()
		}
		r.w.Tick(time.Second)
		r.v.Take()
		if r.p.Pipe.ServerClosed() {
			r.fail("idle", "active-connection-idled-out", "the peer sent a message every third of the idle timeout and was disconnected")
		}
		r.judge("silent-while-relayed-to-for-two-idle-timeouts", true)
		r.finish("silent-while-relayed-to-for-two-idle-timeouts")
		collect("idle-silent-relayed-to", explore.Outcome{Steps: r.w.S.Steps, Violations: r.x.V, Key: "silent-relayed"})
	}
	// (2) keeps sending within the timeout: not disconnected
	r = newRobustWorld(point, &explore.FixedChooser{})
	for i := 0; i < 7; i++ {
		r.w.Tick(idle/2 + time.Second)
		for _, c := range []*world.Client{r.o, r.v, r.p} {
			if c != nil {
				c.SendMsg(&hagallpb.Request{Type: hagallpb.MsgType_MSG_TYPE_PING_REQUEST, Timestamp: r.w.NextTS(), RequestId: c.NextReqID()})
			}
		}
		r.w.Run()
	}
	if r.o.Pipe.ServerClosed() {
		r.fail("idle", "sending-connection-idled-out", "the connection sent a message every half idle timeout and was disconnected")
	}
	for _, c := range r.w.Clients {
		c.Take()
	}
	r.judge("sending-within-the-idle-timeout", false)
	r.finish("sending-within-the-idle-timeout")
	collect("idle-active", explore.Outcome{Steps: r.w.S.Steps, Violations: r.x.V, Key: "active"})
}
