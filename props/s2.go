package props

import (
	"encoding/json"
	"fmt"
	"os"
	"sort"
	"strings"
	"time"

	"github.com/aukilabs/hagall-common/messages/hagallpb"

	"verif/check"
	"verif/explore"
	"verif/vrt"
	"verif/world"
)

// Ctx is the state of one execution of a scenario.
type Ctx struct {
	W    *world.World
	C    map[string]*world.Client
	J    map[string]JoinInfo // last successful join per client name
	Vars map[string]any
	V    []explore.Violation
	Base struct {
		Sessions, Clients         float64
		SessSeries, ClientSeries map[string]float64
	}
}

func (x *Ctx) fail(oracle, detail, info string, a ...any) {
	x.V = append(x.V, explore.Violation{Oracle: oracle, Detail: detail, Info: fmt.Sprintf(info, a...)})
}

func (x *Ctx) conn(names ...string) {
	for _, n := range names {
		x.C[n] = x.W.Connect(n)
	}
	x.W.Run()
	for _, n := range names {
		x.C[n].Take()
	}
}

func (x *Ctx) join(name, sid string) JoinInfo {
	ji := join(x.W, x.C[name], sid)
	if ji.OK {
		x.J[name] = ji
	}
	return ji
}

// Block is an S2 scenario: sequential setup, a set of requests fired at once,
// exhaustive interleaving of their handling, then oracles.
type Block struct {
	Name  string
	Cfg   world.Config
	Setup func(x *Ctx)
	Fire  func(x *Ctx)
	// Check runs at the quiescent point after the block (sequential mode).
	Check func(x *Ctx)
	// Final runs after every client has been closed and the world torn down.
	Final func(x *Ctx, left []world.Leftover)
	// ExploreSelect / ExploreMapOrder widen the choice kinds.
	ExploreSelect   bool
	ExploreMapOrder bool
}

// stuck lists threads parked on an operation that only another thread could
// enable, at a point where no thread can run: a deadlock.
func stuck(s *vrt.Sched) []string {
	var out []string
	for _, t := range s.Blocked() {
		switch t.OpKind() {
		case vrt.OpLock, vrt.OpRLock, vrt.OpWLock, vrt.OpOnce, vrt.OpSend, vrt.OpWGWait:
			out = append(out, t.Describe())
		}
	}
	return out
}

func stuckClass(s *vrt.Sched) string {
	var out []string
	for _, t := range s.Blocked() {
		switch t.OpKind() {
		case vrt.OpLock, vrt.OpRLock, vrt.OpWLock, vrt.OpOnce, vrt.OpSend, vrt.OpWGWait:
			lab := t.Label
			if strings.HasPrefix(lab, "conn:") {
				lab = "conn"
			}
			out = append(out, lab+":"+t.OpKind().String())
		}
	}
	sort.Strings(out)
	return strings.Join(out, ",")
}

// RunBlock performs one execution of b under chooser ch.
func RunBlock(b *Block, ch vrt.Chooser, trace bool) (out explore.Outcome, x *Ctx) {
	w := world.New(b.Cfg, ch)
	s := w.S
	s.EagerLabels = []string{eagerPrefix}
	s.NoPreempt = true
	s.TraceOn = trace
	x = &Ctx{W: w, C: map[string]*world.Client{}, J: map[string]JoinInfo{}, Vars: map[string]any{}}
	x.Base.Sessions = gauge("session_count")
	x.Base.Clients = gauge("ws_connected_clients")
	x.Base.SessSeries, x.Base.ClientSeries = gaugeSeries("session_count"), gaugeSeries("ws_connected_clients")
	defer func() {
		if r := recover(); r != nil {
			// make sure no goroutine survives an engine error
			func() {
				defer func() { recover() }()
				w.Finish()
			}()
			panic(r)
		}
	}()
	if b.Setup != nil {
		b.Setup(x)
	}
	s.NoPreempt = false
	s.ForgetLastRun()
	s.ExploreSelect = b.ExploreSelect
	s.ExploreMapOrder = b.ExploreMapOrder
	b.Fire(x)
	w.Run()
	s.NoPreempt = true
	s.ExploreSelect = false
	s.ExploreMapOrder = false
	if st := stuck(s); len(st) > 0 {
		x.fail("deadlock", stuckClass(s), "threads blocked forever after the block: %s", strings.Join(st, "; "))
	} else if b.Check != nil {
		b.Check(x)
	}
	left := w.Finish()
	for _, p := range w.Panics {
		x.fail("panic", "goroutine-panicked:"+p.Label+":"+panicSite(p.Stack), "a server goroutine (%s) panicked: %s", p.Label, p.Value)
	}
	if b.Final != nil {
		b.Final(x, left)
	}
	out.Points = s.Points
	out.Steps = s.Steps
	out.HitCap = s.HitCap
	out.Violations = x.V
	out.Key = outcomeKey(x)
	return out, x
}

// outcomeKey summarises what every client received (types and error codes).
func outcomeKey(x *Ctx) string {
	var names []string
	for n := range x.C {
		names = append(names, n)
	}
	sort.Strings(names)
	var sb strings.Builder
	for _, n := range names {
		sb.WriteString(n + ":")
		for _, r := range x.C[n].All() {
			fmt.Fprintf(&sb, "%d", r.Type)
			if e, ok := r.Msg.(*hagallpb.ErrorResponse); ok {
				fmt.Fprintf(&sb, "/%d", e.Code)
			}
			sb.WriteByte(',')
		}
		sb.WriteByte(';')
	}
	for _, v := range x.V {
		sb.WriteString("!" + v.Oracle + ":" + v.Detail)
	}
	return sb.String()
}

// S2Params are the job parameters of a block exploration.
type S2Params struct {
	Block string `json:"block"`
	Bound int    `json:"bound"`
	// MaxExec caps the number of executions (0 = none).
	MaxExec  int `json:"max_exec,omitempty"`
	ShardIdx int `json:"shard_idx,omitempty"`
	ShardN   int `json:"shard_n,omitempty"`
	// Prod: production decoration (logs + metrics decorators, all modules)
	Prod bool `json:"prod,omitempty"`
}

var blocks = map[string]func() *Block{}

func registerBlock(name string, f func() *Block) { blocks[name] = f }

func init() { check.Register("s2", runS2Job) }

func runS2Job(j *check.Job) *check.Result {
	var p S2Params
	json.Unmarshal(j.Params, &p)
	mk, ok := blocks[p.Block]
	if !ok {
		return &check.Result{EngineError: "unknown block " + p.Block}
	}
	res := &check.Result{Bound: p.Bound, Extra: map[string]any{}}
	mk0 := mk
	mk = func() *Block {
		b := mk0()
		if p.Prod {
			b.Cfg.Prod = true
			b.Cfg.Modules = []string{"vikja", "odal", "dagaz"}
		}
		return b
	}
	rw := newRaceWatch()
	lockEdges := map[vrt.LockEdge]struct{}{}
	if j.Replay != nil {
		b := mk()
		out, x := RunBlock(b, &explore.FixedChooser{Choices: j.Replay.Choices}, true)
		for _, line := range x.W.S.Trace {
			fmt.Println("  ", line)
		}
		for _, v := range out.Violations {
			res.Violations = append(res.Violations, check.Violation{Scenario: j.Name, Oracle: v.Oracle, Detail: v.Detail, Info: v.Info, Tags: violationTags(v.Oracle, v.Detail)})
		}
		res.Executions = 1
		res.Exhaustive = true
		return res
	}
	// determinism self-check: the default execution twice
	RunBlock(mk(), &explore.FixedChooser{}, false) // warm-up: process-wide caches (message-type names) fill on first use
	// The detector reports a race once per process: one that shows on the default
	// schedule is reported during the warm-up and never again. It belongs to the
	// default schedule (empty choice list).
	for _, r := range rw.fresh() {
		res.Violations = append(res.Violations, check.Violation{Scenario: j.Name, Oracle: "race", Detail: r.Sig, Info: "unsynchronised conflicting accesses (Go race detector, happens-before, on the default schedule):\n" + r.Text, Replay: &check.Replay{}, Tags: violationTags("race", r.Sig)})
	}
	b := mk()
	o1, _ := RunBlock(b, &explore.FixedChooser{}, false)
	o2, _ := RunBlock(mk(), &explore.FixedChooser{}, false)
	if o1.Key != o2.Key || len(o1.Points) != len(o2.Points) || o1.Steps != o2.Steps {
		res.EngineError = fmt.Sprintf("nondeterminism: the default execution differs between two runs (%d/%d points, %d/%d steps)", len(o1.Points), len(o2.Points), o1.Steps, o2.Steps)
		return res
	}
	cfg := explore.Config{Bound: p.Bound, MaxExec: p.MaxExec, ShardIdx: p.ShardIdx, ShardN: p.ShardN}
	if j.BudgetS > 0 {
		cfg.Deadline = time.Now().Add(time.Duration(j.BudgetS) * time.Second)
	}
	var sample []int
	st := explore.Explore(func(ch vrt.Chooser) explore.Outcome {
		out, x := RunBlock(mk(), ch, false)
		for _, r := range rw.fresh() {
			out.Violations = append(out.Violations, explore.Violation{Oracle: "race", Detail: r.Sig, Info: "unsynchronised conflicting accesses (Go race detector, happens-before, on this serialised execution):\n" + r.Text})
		}
		for e := range x.W.S.LockEdges {
			lockEdges[e] = struct{}{}
		}
		return out
	}, cfg)
	if cyc := vrt.LockCycle(lockEdges); cyc != nil {
		res.Violations = append(res.Violations, check.Violation{Scenario: j.Name, Oracle: "lock-order", Detail: "cycle:" + strings.Join(cyc, ">"), Info: "the lock-order graph accumulated over all explored executions has a cycle: " + strings.Join(cyc, " -> "), Tags: []string{"C09"}})
	}
	res.Extra["lock_order_edges"] = len(lockEdges)
	res.Extra["race_build"] = vrt.RaceBuild
	res.Executions = st.Executions
	res.States = st.Executions
	res.Transitions = st.Points
	res.Steps = st.Steps
	res.Outcomes = len(st.Outcomes)
	res.Exhaustive = st.Exhaustive
	res.CapHit = st.CapHit
	res.MaxDepth = st.MaxPoints
	res.BoundDone = &st.BoundDone
	if len(st.Diverged) > 0 {
		res.EngineError = "replay divergence: " + st.Diverged[0]
	}
	res.Extra["executions_by_deviations"] = st.ByCost
	if os.Getenv("S2DEBUG") != "" {
		for k, n := range st.Outcomes {
			fmt.Printf("OUTCOME x%d %s\n", n, k)
		}
	}
	for _, f := range st.Found {
		if sample == nil {
			sample = f.Prefix
		}
		res.Violations = append(res.Violations, check.Violation{Scenario: j.Name, Oracle: f.Oracle, Detail: f.Detail, Info: f.Info, Replay: &check.Replay{Choices: trimZeros(f.Prefix)}, Tags: violationTags(f.Oracle, f.Detail)})
	}
	res.Samples = []any{map[string]any{"block": p.Block, "bound": p.Bound, "default_schedule_choice_points": len(o1.Points), "default_outcome": o1.Key}}
	return res
}

// oracleTags maps an S2 oracle to the properties it is evidence against.
func oracleTags(oracle string) []string {
	switch oracle {
	case "view", "probe":
		return []string{"C01", "C06"}
	case "relay":
		return []string{"C02", "C13"}
	case "isolation":
		return []string{"C03"}
	case "deadlock":
		return []string{"C09", "C08"}
	case "teardown":
		return []string{"C07", "C08", "C09"}
	case "answer-count", "answer":
		return []string{"C09", "C07", "C10"}
	case "duplicate-session-id":
		return []string{"C07", "C03", "C10"}
	case "gauge", "orphaned-join", "empty-session-discoverable", "frame-worker":
		return []string{"C07", "C03"}
	case "id", "id-source":
		return []string{"C10", "C05", "C12", "C04", "C09"} // under concurrency a reissued id is corrupted shared state
	case "race":
		return []string{"C09"}
	case "panic":
		return []string{"C08", "C09"}
	case "liveness":
		return []string{"C11", "C09", "C02", "C01"}
	case "store":
		return []string{"C12", "C01", "C09"}
	case "groundplane":
		return []string{"C20", "C09", "C07"}
	}
	return nil
}

// violationTags: oracleTags, plus C10 / C05 for a race at an id source (those
// two checks run the allocation blocks in the race build; a race elsewhere is
// not evidence against them).
func violationTags(oracle, detail string) []string {
	t := oracleTags(oracle)
	if strings.Contains(detail, "under-back-pressure") {
		return nil // the back-pressure histories: evidence for whichever property's check runs them
	}
	if oracle == "relay" {
		// a relay that is lost, repeated or misdirected is also evidence against the
		// property of its message class
		extra := map[string][]string{"custom": {"C14"}, "customto": {"C14"}, "pose": {"C11"}, "action": {"C16"}, "asset": {"C16"}, "cadd": {"C12"}, "cupd": {"C12"}, "cdel": {"C12"}}
		if i := strings.Index(detail, ":"); i > 0 {
			if e, ok := extra[detail[:i]]; ok {
				t = append(append([]string{}, t...), e...)
			}
		}
	}
	if oracle == "race" && (strings.Contains(detail, "IDGenerator") || strings.Contains(detail, "ID).") || strings.Contains(detail, "InstanceID") || strings.Contains(detail, "ParticipantID") || strings.Contains(detail, "EntityID")) {
		t = append(append([]string{}, t...), "C10", "C05")
	}
	return t
}

func trimZeros(c []int) []int {
	n := len(c)
	for n > 0 && c[n-1] == 0 {
		n--
	}
	return c[:n]
}

func s2job(block string, bound int, budget int) check.Job {
	p, _ := json.Marshal(S2Params{Block: block, Bound: bound})
	return check.Job{Kind: "s2", Name: fmt.Sprintf("S2:%s", block), Params: p, BudgetS: budget}
}

// s2sharded splits the exploration of one block over n worker processes
// (the subtrees below the first-level alternatives are dealt round-robin).
func s2sharded(block string, bound, budget, n int) []check.Job {
	var out []check.Job
	for i := 0; i < n; i++ {
		p, _ := json.Marshal(S2Params{Block: block, Bound: bound, ShardIdx: i, ShardN: n})
		out = append(out, check.Job{Kind: "s2", Name: fmt.Sprintf("S2:%s", block), Params: p, BudgetS: budget})
	}
	return out
}
