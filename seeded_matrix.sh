#!/bin/bash
# seeded_matrix.sh [glob]: apply each seeded change to /repo, run the listed checks (quick), undo; appends to seeded/MATRIX.txt
cd /verif
pat=${1:-*}
out=seeded/MATRIX.txt
# the checks rewrite evidence/ on every run: keep the files of the unchanged tree
keep=$(mktemp -d); cp -r evidence $keep/; trap 'rm -rf evidence; cp -r $keep/evidence evidence; rm -rf $keep' EXIT
for d in seeded/$pat/; do
  id=$(basename $d)
  [ -f $d/patch.diff ] || continue
  props=$(python3 -c "import json;print(' '.join(json.load(open('$d/meta.json'))['run_checks']))")
  sed -i "/^$id /d" $out 2>/dev/null
  if ! git -C /repo apply --check $PWD/$d/patch.diff 2>/dev/null; then echo "$id PATCH-DOES-NOT-APPLY" | tee -a $out; continue; fi
  git -C /repo apply $PWD/$d/patch.diff
  for p in $props; do
    s=$(date +%s)
    timeout 1800 ./run.sh check $p quick > /tmp/seeded.$id.$p.log 2>&1; rc=$?
    e=$(( $(date +%s) - s ))
    first=$(grep -A1 "^VIOLATION" /tmp/seeded.$id.$p.log | grep scenario | head -1 | sed 's/^ *//' | cut -c1-200)
    echo "$id $p exit=$rc ${e}s viol=$(grep -c ^VIOLATION /tmp/seeded.$id.$p.log) | $first" | tee -a $out
  done
  git -C /repo checkout -- .
done
sort -o $out $out
git -C /repo status --short | head -3
