#!/bin/bash
# seeded_matrix.sh: apply each seeded change to /repo, run the listed checks (quick), undo; writes seeded/MATRIX.txt
cd /verif
out=seeded/MATRIX.txt; : > $out
for d in seeded/*/; do
  id=$(basename $d)
  [ -f $d/patch.diff ] || continue
  props=$(python3 -c "import json;print(' '.join(json.load(open('$d/meta.json'))['run_checks']))")
  if ! git -C /repo apply --check $PWD/$d/patch.diff 2>/dev/null; then echo "$id PATCH-DOES-NOT-APPLY" | tee -a $out; continue; fi
  git -C /repo apply $PWD/$d/patch.diff
  for p in $props; do
    s=$(date +%s)
    timeout 1800 ./run.sh check $p quick > /tmp/seeded.$id.$p.log 2>&1; rc=$?
    e=$(( $(date +%s) - s ))
    first=$(grep -A1 "^VIOLATION" /tmp/seeded.$id.$p.log | grep scenario | head -1 | sed 's/^ *//' | cut -c1-200)
    echo "$id $p exit=$rc ${e}s viol=$(grep -c ^VIOLATION /tmp/seeded.$id.$p.log) | $first" | tee -a $out
  done
  git -C /repo checkout -- .
done
git -C /repo status --short | head -3
