package explore

import (
	"fmt"
	"hash/fnv"
	"sort"
	"testing"

	"verif/vrt"
)

// synthetic deterministic tree: the shape of the rest of an execution depends
// on the choices made so far
func synth(seed uint32, record map[string]int) RunFunc {
	return func(ch vrt.Chooser) Outcome {
		var pts []vrt.ChoicePoint
		h := fnv.New32a()
		fmt.Fprint(h, seed)
		key := ""
		for i := 0; i < 7; i++ {
			v := h.Sum32()
			n := int(v%3) + 1
			if n == 1 {
				fmt.Fprint(h, "x")
				continue
			}
			cp := vrt.ChoicePoint{N: n, Kind: vrt.ChoiceKind(v % 2), AltCost: int(v>>8) % 3} // cost 0, 1 or 2
			c := ch.Choose(len(pts), &cp)
			cp.Chosen = c
			pts = append(pts, cp)
			fmt.Fprint(h, c, i)
			key += fmt.Sprint(c)
		}
		record[key]++
		return Outcome{Points: pts, Key: key}
	}
}

func TestIterativeEqualsSinglePass(t *testing.T) {
	for seed := uint32(0); seed < 40; seed++ {
		for bound := 0; bound <= 3; bound++ {
			ref := map[string]int{}
			st1 := &Stats{Outcomes: map[string]int{}, Exhaustive: true, ByCost: map[int]int{}}
			exploreOnce(synth(seed, ref), Config{Bound: bound, KeepViol: 20}, st1, 0)
			got := map[string]int{}
			st2 := Explore(synth(seed, got), Config{Bound: bound})
			if st1.Executions != st2.Executions || len(st1.Outcomes) != len(st2.Outcomes) || st2.BoundDone != bound {
				t.Fatalf("seed %d bound %d: single pass %d executions / %d outcomes, iterative %d / %d (done %d)", seed, bound, st1.Executions, len(st1.Outcomes), st2.Executions, len(st2.Outcomes), st2.BoundDone)
			}
			for k, n := range st1.Outcomes {
				if n != 1 || st2.Outcomes[k] != 1 {
					t.Fatalf("seed %d bound %d: schedule %s counted %d / %d times", seed, bound, k, n, st2.Outcomes[k])
				}
			}
			// sharded: the union of the shards is the same set, each counted once
			for _, n := range []int{2, 5} {
				union := map[string]int{}
				total := 0
				for i := 0; i < n; i++ {
					st := Explore(synth(seed, map[string]int{}), Config{Bound: bound, ShardIdx: i, ShardN: n})
					total += st.Executions
					for k, c := range st.Outcomes {
						union[k] += c
					}
				}
				var a, b []string
				for k := range union {
					a = append(a, k)
				}
				for k := range st1.Outcomes {
					b = append(b, k)
				}
				sort.Strings(a)
				sort.Strings(b)
				if total != st1.Executions || fmt.Sprint(a) != fmt.Sprint(b) {
					t.Fatalf("seed %d bound %d shards %d: %d executions vs %d", seed, bound, n, total, st1.Executions)
				}
			}
		}
	}
}
