// Package explore is the stateless search over choice sequences: depth-first,
// deviation-bounded (CHESS-style iterative context bounding generalised to
// select choices, map orders and environment events). Every execution runs
// the real code to completion; what is bounded is the number of deviations
// from the default choice.
package explore

import (
	"fmt"
	"time"

	"verif/vrt"
)

// PC is one recorded choice of a prefix.
type PC struct {
	Choice int
	N      int
	Kind   vrt.ChoiceKind
}

// Chooser replays a prefix and then takes the default (0) everywhere.
type Chooser struct {
	Prefix   []PC
	Diverged string
}

func (c *Chooser) Choose(idx int, cp *vrt.ChoicePoint) int {
	if idx < len(c.Prefix) {
		p := c.Prefix[idx]
		if p.N != cp.N || p.Kind != cp.Kind {
			if c.Diverged == "" {
				c.Diverged = fmt.Sprintf("replay diverged at choice point %d: recorded %v/%d, now %v/%d", idx, p.Kind, p.N, cp.Kind, cp.N)
			}
			if p.Choice < cp.N {
				return p.Choice
			}
			return 0
		}
		return p.Choice
	}
	return 0
}

// Outcome is what one execution reports back.
type Outcome struct {
	Points []vrt.ChoicePoint
	// Key summarises the observable result (for counting distinct outcomes).
	Key string
	// Violations found by the oracles in this execution.
	Violations []Violation
	Steps      int
	HitCap     bool
}

type Violation struct {
	Oracle string
	Detail string // canonical, address-free; part of the finding signature
	Info   string // free text for humans
}

// RunFunc performs one execution under the given chooser.
type RunFunc func(ch vrt.Chooser) Outcome

type Config struct {
	Bound      int            // max deviations
	MaxExec    int            // 0 = unlimited
	Deadline   time.Time      // zero = none
	ShardIdx   int            // this shard
	ShardN     int            // number of shards (0/1 = no sharding)
	StopOnViol bool           // stop at first violation
	KeepViol   int            // max violations kept
	Progress   func(s *Stats) // optional
}

type Found struct {
	Violation
	Prefix []int // the complete choice list of the failing execution
	Cost   int
}

type Stats struct {
	Executions int
	Points     int // total choice points seen (transitions between choice states)
	Steps      int // scheduler steps executed by the real code
	MaxPoints  int
	Outcomes   map[string]int
	Found      []Found
	Exhaustive bool
	CapHit     string
	Diverged   []string
	ByCost     map[int]int // executions by number of deviations used
	BoundDone  int         // largest deviation bound whose space was enumerated completely (-1: none)
	Replayed   int         // executions of lower-cost schedules repeated by a later pass (not counted elsewhere)
}

// Explore enumerates every choice sequence with at most cfg.Bound deviations,
// iterating the bound (0, 1, ... cfg.Bound): each pass is a complete depth-first
// enumeration of its bound, so when a time or execution cap ends the search
// the largest completed bound is known (Stats.BoundDone), and the first
// violation found has the fewest deviations. A pass counts only the
// executions that use exactly its bound (the cheaper ones were counted by the
// earlier passes and are merely re-run as inner nodes of the tree).
func Explore(run RunFunc, cfg Config) *Stats {
	st := &Stats{Outcomes: map[string]int{}, Exhaustive: true, ByCost: map[int]int{}, BoundDone: -1}
	if cfg.KeepViol == 0 {
		cfg.KeepViol = 20
	}
	if cfg.Bound >= 16 {
		// "unbounded" (every order of a small map, every alternative): one pass
		exploreOnce(run, cfg, st, 0)
		if st.Exhaustive {
			st.BoundDone = cfg.Bound
		}
		return st
	}
	for b := 0; b <= cfg.Bound; b++ {
		before := st.Executions
		c := cfg
		c.Bound = b
		exploreOnce(run, c, st, b)
		if !st.Exhaustive {
			return st
		}
		st.BoundDone = b
		if b > 0 && st.Executions == before && !(cfg.ShardN > 1) {
			// no schedule needs b deviations: every larger bound is complete too
			st.BoundDone = cfg.Bound
			break
		}
	}
	return st
}

// exploreOnce is one depth-first pass with a fixed bound; executions cheaper
// than countFrom are run (their alternatives are the tree) but not counted.
func exploreOnce(run RunFunc, cfg Config, st *Stats, countFrom int) {
	type item struct {
		prefix []PC
		level  int // number of non-default choices in prefix (tree depth)
	}
	stack := []item{{nil, 0}}
	childNo := 0
	for len(stack) > 0 {
		it := stack[len(stack)-1]
		stack = stack[:len(stack)-1]
		if cfg.MaxExec > 0 && st.Executions >= cfg.MaxExec {
			st.Exhaustive = false
			st.CapHit = fmt.Sprintf("execution cap %d", cfg.MaxExec)
			break
		}
		if !cfg.Deadline.IsZero() && time.Now().After(cfg.Deadline) {
			st.Exhaustive = false
			st.CapHit = "time budget"
			break
		}
		ch := &Chooser{Prefix: it.prefix}
		out := run(ch)
		cost := 0
		choices := make([]int, len(out.Points))
		for i, p := range out.Points {
			choices[i] = p.Chosen
			if p.Chosen > 0 {
				cost += p.AltCost
			}
		}
		// the root execution belongs to shard 0 (elsewhere it only seeds the
		// subtrees); executions cheaper than this pass's bound were counted before
		isSharedRoot := (it.level == 0 && cfg.ShardN > 1 && cfg.ShardIdx > 0) || (cost < countFrom && ch.Diverged == "")
		if isSharedRoot {
			out.Violations = nil
			if cost < countFrom {
				st.Replayed++
			}
		} else {
			st.Executions++
			st.Steps += out.Steps
			st.Points += len(out.Points)
		}
		if len(out.Points) > st.MaxPoints {
			st.MaxPoints = len(out.Points)
		}
		if out.HitCap {
			st.Exhaustive = false
			st.CapHit = "step horizon reached in an execution"
		}
		if ch.Diverged != "" {
			st.Diverged = append(st.Diverged, ch.Diverged)
			continue
		}
		if !isSharedRoot {
			st.Outcomes[out.Key]++
			st.ByCost[cost]++
		}
		for _, v := range out.Violations {
			if len(st.Found) < cfg.KeepViol {
				st.Found = append(st.Found, Found{v, choices, cost})
			}
		}
		if cfg.StopOnViol && len(out.Violations) > 0 {
			st.Exhaustive = false
			st.CapHit = "stopped at first violation"
			break
		}
		// expand
		used := 0
		for i, p := range out.Points {
			if i < len(it.prefix) {
				if p.Chosen > 0 {
					used += p.AltCost
				}
				continue
			}
			for alt := p.N - 1; alt >= 1; alt-- {
				if used+p.AltCost > cfg.Bound {
					continue
				}
				if it.level == 0 && cfg.ShardN > 1 {
					mine := childNo%cfg.ShardN == cfg.ShardIdx
					childNo++
					if !mine {
						continue
					}
				}
				np := make([]PC, i+1)
				for j := 0; j < i; j++ {
					np[j] = PC{out.Points[j].Chosen, out.Points[j].N, out.Points[j].Kind}
				}
				np[i] = PC{alt, p.N, p.Kind}
				stack = append(stack, item{np, it.level + 1})
			}
		}
		if cfg.Progress != nil && st.Executions%1000 == 0 {
			cfg.Progress(st)
		}
	}
}

// FromChoices turns a recorded choice list into a replay chooser that does
// not validate N/kind (used by replay files).
type FixedChooser struct{ Choices []int }

func (f *FixedChooser) Choose(idx int, cp *vrt.ChoicePoint) int {
	if idx < len(f.Choices) && f.Choices[idx] < cp.N {
		return f.Choices[idx]
	}
	return 0
}
