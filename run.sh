#!/bin/bash
# run.sh setup | check <Cxx> <quick|thorough> | replay <file>
# Every invocation re-instruments /repo's current working tree and rebuilds.
set -u
cd "$(dirname "$0")"
ROOT=$(pwd)
export GOFLAGS=-mod=mod GOPROXY=off GOSUMDB=off GOTOOLCHAIN=local GODEBUG=goindex=0 GONOSUMDB=* GONOSUMCHECK=1 GOFLAGS=-mod=mod
B=$ROOT/.build
mkdir -p $B
[ -f go.sum ] || cp /repo/go.sum go.sum

build_tools() {
  go build -o $B/vinstr ./cmd/vinstr || { echo "cannot build vinstr" >&2; exit 2; }
}

instrument() {
  $B/vinstr -out $B/overlay -extra $ROOT/extra > $B/vinstr.log 2>&1 || { cat $B/vinstr.log >&2; echo "cannot instrument /repo (does it compile?)" >&2; exit 2; }
}

build_check() {
  go build -overlay $B/overlay/overlay.json -o $B/check ./cmd/check > $B/build.log 2>&1 || { cat $B/build.log >&2; echo "cannot build the check binary against /repo" >&2; exit 2; }
}

build_race() {
  go build -race -overlay $B/overlay/overlay.json -o $B/check.race ./cmd/check > $B/build-race.log 2>&1 || { cat $B/build-race.log >&2; echo "cannot build the race check binary" >&2; exit 2; }
}

needs_race() { case "$1" in C09|C10|C05|C15|C18) return 0;; *) return 1;; esac; }

case "${1:-}" in
  setup)
    build_tools; instrument; build_check; build_race
    echo "setup ok"
    ;;
  check)
    prop=$2; tier=${3:-${VERIF_TIER:-quick}}
    build_tools
    instrument; build_check
    if needs_race $prop; then build_race; fi
    exec $B/check -root $ROOT -race-exe $B/check.race $prop $tier
    ;;
  replay)
    build_tools
    instrument; build_check
    exec $B/check -root $ROOT replay "$2"
    ;;
  *)
    echo "usage: run.sh setup | check <Cxx> <quick|thorough> | replay <file>" >&2; exit 2;;
esac
