package s1

import (
	"crypto/sha1"
	"fmt"
	"sort"
	"strings"

	"github.com/aukilabs/hagall-common/messages/dagazpb"
	"github.com/aukilabs/hagall-common/messages/hagallpb"
	"github.com/aukilabs/hagall-common/messages/odalpb"
	"github.com/aukilabs/hagall-common/messages/vikjapb"
	"google.golang.org/protobuf/types/known/timestamppb"

	"verif/world"
)

// Msg is the abstract form of a message: what the properties talk about,
// with server timestamps dropped and repeated fields sorted.
type Msg struct {
	Type   int32
	RID    uint32
	Code   int32
	Origin int64 // origin timestamp seconds (0 if none)
	F      string
}

func (m Msg) String() string {
	s := fmt.Sprintf("%s", typeName(m.Type))
	if m.RID != 0 {
		s += fmt.Sprintf(" rid=%d", m.RID)
	}
	if m.Type == 0 {
		s += fmt.Sprintf(" code=%d", m.Code)
	}
	if m.Origin != 0 {
		s += fmt.Sprintf(" origin=%d", m.Origin)
	}
	if m.F != "" {
		s += " " + m.F
	}
	return s
}

var typeNames = map[int32]string{0: "ERROR", 1: "SYNC_CLOCK", 2: "SESSION_STATE", 4: "JOIN_RESP", 5: "JOIN_BCAST", 7: "LEAVE_BCAST", 9: "EADD_RESP", 10: "EADD_BCAST", 12: "EDEL_RESP", 13: "EDEL_BCAST", 15: "POSE_BCAST", 17: "CUSTOM_BCAST", 19: "TADD_RESP", 21: "GETNAME_RESP", 23: "GETID_RESP", 25: "CADD_RESP", 26: "CADD_BCAST", 28: "CDEL_RESP", 29: "CDEL_BCAST", 31: "CUPD_BCAST", 33: "CLIST_RESP", 35: "SUB_RESP", 37: "UNSUB_RESP", 38: "PING_REQ", 39: "PING_RESP", 41: "RECEIPT_RESP", 43: "SIGNED_LATENCY_RESP", 100: "VIKJA_STATE", 102: "ACTION_RESP", 103: "ACTION_BCAST", 200: "ODAL_STATE", 202: "ASSET_RESP", 203: "ASSET_BCAST", 302: "GROUND_RESP", 304: "REGION_RESP", 306: "DEBUG_RESP"}

func typeName(t int32) string {
	if n, ok := typeNames[t]; ok {
		return n
	}
	return fmt.Sprintf("TYPE_%d", t)
}

func ts(t *timestamppb.Timestamp) int64 {
	if t == nil {
		return 0
	}
	return t.Seconds
}

func poseStr(p *hagallpb.Pose) string {
	if p == nil {
		return "nil"
	}
	return fmt.Sprintf("%v/%v/%v/%v/%v/%v/%v", p.Px, p.Py, p.Pz, p.Rx, p.Ry, p.Rz, p.Rw)
}

func mposeStr(p Pose) string { return fmt.Sprintf("%v/0/0/0/0/0/0", p.PX) }

func entStr(e *hagallpb.Entity) string {
	if e == nil {
		return "nil"
	}
	return fmt.Sprintf("(%d,o%d,f%d,%s)", e.Id, e.ParticipantId, int32(e.Flag), poseStr(e.Pose))
}

func mentStr(e *MEntity) string {
	return fmt.Sprintf("(%d,o%d,f%d,%s)", e.ID, e.Owner, e.Flag, mposeStr(e.Pose))
}

func compStr(c *hagallpb.EntityComponent) string {
	if c == nil {
		return "nil"
	}
	return fmt.Sprintf("(%d,%d,%q)", c.EntityComponentTypeId, c.EntityId, c.Data)
}

func mcompStr(k CompKey, d string) string { return fmt.Sprintf("(%d,%d,%q)", k.T, k.E, d) }

func actionStr(a *vikjapb.EntityAction) string {
	if a == nil {
		return "nil"
	}
	t := int64(-1)
	if a.Timestamp != nil {
		t = a.Timestamp.Seconds*1e9 + int64(a.Timestamp.Nanos)
	}
	return fmt.Sprintf("(%d,%q,%d,%q)", a.EntityId, a.Name, t, a.Data)
}

func mactionStr(a MAction) string { return fmt.Sprintf("(%d,%q,%d,%q)", a.Ent, a.Name, a.TS, a.Data) }

func assetStr(a *odalpb.AssetInstance) string {
	if a == nil {
		return "nil"
	}
	return fmt.Sprintf("(#%d,%q,p%d,e%d)", a.Id, a.AssetId, a.ParticipantId, a.EntityId)
}

func massetStr(a MAsset) string { return fmt.Sprintf("(#%d,%q,p%d,e%d)", a.ID, a.Asset, a.By, a.Ent) }

func sortedJoin(xs []string) string {
	sort.Strings(xs)
	return "[" + strings.Join(xs, " ") + "]"
}

func bodyStr(b []byte) string {
	if len(b) <= 16 {
		return fmt.Sprintf("%d:%x", len(b), b)
	}
	return fmt.Sprintf("%d:%x", len(b), sha1.Sum(b))
}

// Canon abstracts a received message.
func Canon(r *world.Recv) Msg {
	m := Msg{Type: r.Type}
	switch x := r.Msg.(type) {
	case *hagallpb.ErrorResponse:
		m.RID, m.Code = x.RequestId, int32(x.Code)
	case *hagallpb.SessionState:
		var ps, es, cs []string
		for _, p := range x.Participants {
			ps = append(ps, fmt.Sprint(p.Id))
		}
		for _, e := range x.Entities {
			es = append(es, entStr(e))
		}
		for _, c := range x.EntityComponents {
			cs = append(cs, compStr(c))
		}
		m.F = "parts=" + sortedJoin(ps) + " ents=" + sortedJoin(es) + " comps=" + sortedJoin(cs)
	case *hagallpb.ParticipantJoinResponse:
		m.RID = x.RequestId
		m.F = fmt.Sprintf("sid=%s uuid=%s pid=%d", x.SessionId, x.SessionUuid, x.ParticipantId)
	case *hagallpb.ParticipantJoinBroadcast:
		m.Origin = ts(x.OriginTimestamp)
		m.F = fmt.Sprintf("pid=%d", x.ParticipantId)
	case *hagallpb.ParticipantLeaveBroadcast:
		m.F = fmt.Sprintf("pid=%d", x.ParticipantId)
	case *hagallpb.EntityAddResponse:
		m.RID = x.RequestId
		m.F = fmt.Sprintf("eid=%d", x.EntityId)
	case *hagallpb.EntityAddBroadcast:
		m.Origin = ts(x.OriginTimestamp)
		m.F = "ent=" + entStr(x.Entity)
	case *hagallpb.EntityDeleteResponse:
		m.RID = x.RequestId
	case *hagallpb.EntityDeleteBroadcast:
		// origin is the client's timestamp for a requested delete and the
		// server's clock for a departure; compared only in the first case
		m.Origin = ts(x.OriginTimestamp)
		m.F = fmt.Sprintf("eid=%d", x.EntityId)
	case *hagallpb.EntityUpdatePoseBroadcast:
		m.Origin = ts(x.OriginTimestamp)
		m.F = fmt.Sprintf("eid=%d pose=%s", x.EntityId, poseStr(x.Pose))
	case *hagallpb.CustomMessageBroadcast:
		m.Origin = ts(x.OriginTimestamp)
		m.F = fmt.Sprintf("from=%d body=%s", x.ParticipantId, bodyStr(x.Body))
	case *hagallpb.EntityComponentTypeAddResponse:
		m.RID = x.RequestId
		m.F = fmt.Sprintf("tid=%d", x.EntityComponentTypeId)
	case *hagallpb.EntityComponentTypeGetNameResponse:
		m.RID = x.RequestId
		m.F = fmt.Sprintf("name=%q", x.EntityComponentTypeName)
	case *hagallpb.EntityComponentTypeGetIdResponse:
		m.RID = x.RequestId
		m.F = fmt.Sprintf("tid=%d", x.EntityComponentTypeId)
	case *hagallpb.EntityComponentAddResponse:
		m.RID = x.RequestId
	case *hagallpb.EntityComponentAddBroadcast:
		m.Origin = ts(x.OriginTimestamp)
		m.F = "comp=" + compStr(x.EntityComponent)
	case *hagallpb.EntityComponentDeleteResponse:
		m.RID = x.RequestId
	case *hagallpb.EntityComponentDeleteBroadcast:
		m.Origin = ts(x.OriginTimestamp)
		c := x.EntityComponent
		if c != nil {
			m.F = fmt.Sprintf("key=(%d,%d)", c.EntityComponentTypeId, c.EntityId)
		}
	case *hagallpb.EntityComponentUpdateBroadcast:
		m.Origin = ts(x.OriginTimestamp)
		m.F = "comp=" + compStr(x.EntityComponent)
	case *hagallpb.EntityComponentListResponse:
		m.RID = x.RequestId
		var cs []string
		for _, c := range x.EntityComponents {
			cs = append(cs, compStr(c))
		}
		m.F = "comps=" + sortedJoin(cs)
	case *hagallpb.EntityComponentTypeSubscribeResponse:
		m.RID = x.RequestId
	case *hagallpb.EntityComponentTypeUnsubscribeResponse:
		m.RID = x.RequestId
	case *hagallpb.Response:
		m.RID = x.RequestId
	case *hagallpb.ReceiptResponse:
		m.RID = x.RequestId
	case *hagallpb.SignedLatencyResponse:
		m.RID = x.RequestId
	case *vikjapb.State:
		var as []string
		for _, a := range x.EntityActions {
			as = append(as, actionStr(a))
		}
		m.F = "actions=" + sortedJoin(as)
	case *vikjapb.EntityActionResponse:
		m.RID = x.RequestId
	case *vikjapb.EntityActionBroadcast:
		m.Origin = ts(x.OriginTimestamp)
		m.F = "action=" + actionStr(x.EntityAction)
	case *odalpb.State:
		var as []string
		for _, a := range x.AssetInstances {
			as = append(as, assetStr(a))
		}
		m.F = "assets=" + sortedJoin(as)
	case *odalpb.AssetInstanceAddResponse:
		m.RID = x.RequestId
		m.F = fmt.Sprintf("iid=%d", x.AssetInstanceId)
	case *odalpb.AssetInstanceAddBroadcast:
		m.Origin = ts(x.OriginTimestamp)
		m.F = "asset=" + assetStr(x.AssetInstance)
	case *dagazpb.DagazGetRegionResponse:
		m.RID = x.RequestId
		var qs []string
		for _, q := range x.Quads {
			qs = append(qs, fmt.Sprintf("(%v,%v,%v|%v,%v,%v)", q.Center.GetX(), q.Center.GetY(), q.Center.GetZ(), q.Extents.GetX(), q.Extents.GetY(), q.Extents.GetZ()))
		}
		m.F = "quads=" + sortedJoin(qs)
	case *dagazpb.DagazGetGroundPlaneResponse:
		m.RID = x.RequestId
		g := x.Ground
		if g == nil || (g.Extents.GetX() == 0 && g.Extents.GetZ() == 0) {
			m.F = "ground=miss"
		} else {
			m.F = fmt.Sprintf("ground=(%v,%v,%v|%v,%v,%v)", g.Center.GetX(), g.Center.GetY(), g.Center.GetZ(), g.Extents.GetX(), g.Extents.GetY(), g.Extents.GetZ())
		}
	case *dagazpb.DagazGetDebugInfoResponse:
		m.RID = x.RequestId
		m.F = fmt.Sprintf("planes=%d", x.GridPlaneCount)
	default:
		m.F = fmt.Sprintf("raw=%x", r.Raw)
	}
	return m
}

// Exp is an expected message: like Msg, with a set of acceptable error codes
// and optional wildcards.
type Exp struct {
	Msg
	Codes     []int32 // acceptable codes when Type == 0
	AnyOrigin bool
	AnyF      bool
	Optional  bool // may be absent (allowed, not required)
}

func (e Exp) String() string {
	s := e.Msg.String()
	if e.Type == 0 {
		s += fmt.Sprintf(" codes=%v", e.Codes)
	}
	if e.Optional {
		s += " (optional)"
	}
	return s
}

func (e Exp) matches(m Msg) bool {
	if e.Type != m.Type || e.RID != m.RID {
		return false
	}
	if e.Type == 0 {
		ok := false
		for _, c := range e.Codes {
			if c == m.Code {
				ok = true
			}
		}
		if !ok {
			return false
		}
	}
	if !e.AnyOrigin && e.Origin != m.Origin {
		return false
	}
	if !e.AnyF && e.F != m.F {
		return false
	}
	return true
}

// matchAll checks that got is exactly the multiset exp (optional entries may
// be missing). Returns a description of the mismatch, or "".
func matchAll(exp []Exp, got []Msg) string {
	used := make([]bool, len(exp))
	var extra []string
	for _, g := range got {
		found := false
		// prefer required entries
		for pass := 0; pass < 2 && !found; pass++ {
			for i, e := range exp {
				if used[i] || (pass == 0 && e.Optional) {
					continue
				}
				if e.matches(g) {
					used[i] = true
					found = true
					break
				}
			}
		}
		if !found {
			extra = append(extra, g.String())
		}
	}
	var missing []string
	for i, e := range exp {
		if !used[i] && !e.Optional {
			missing = append(missing, e.String())
		}
	}
	if len(extra) == 0 && len(missing) == 0 {
		return ""
	}
	return fmt.Sprintf("unexpected: %v; missing: %v", extra, missing)
}
