// Package s1 is the history search: explicit-state BFS over sequences of
// client events, each executed on the real server (one fresh world per
// history), checked step by step against a reference model that is a reading
// of the property statements (DESIGN.md appendix A), with replicated client
// views and a probe joiner.
package s1

import (
	"fmt"
	"sort"
	"strings"
)

// Ev is one abstract client/environment event. Parameters are ordinals that
// the model resolves against the current state (entity k = the k-th entity
// ever created in the connection's current session, ...), or raw ids when
// Raw is set.
type Ev struct {
	K   string `json:"k"`
	C   int    `json:"c"`
	X   int    `json:"x,omitempty"`
	Y   int    `json:"y,omitempty"`
	Z   int    `json:"z,omitempty"`
	Raw bool   `json:"raw,omitempty"`
	// explicit custom-message parameters (C14): recipient ids as sent, body
	// length and byte pattern
	P  []uint32 `json:"p,omitempty"`
	N  int      `json:"n,omitempty"`
	B  int      `json:"b,omitempty"`
	Ex bool     `json:"ex,omitempty"`
}

func (e Ev) String() string {
	s := fmt.Sprintf("%s(c%d", e.K, e.C)
	if e.X != 0 || e.Y != 0 || e.Z != 0 {
		s += fmt.Sprintf(",%d", e.X)
	}
	if e.Y != 0 || e.Z != 0 {
		s += fmt.Sprintf(",%d", e.Y)
	}
	if e.Z != 0 {
		s += fmt.Sprintf(",%d", e.Z)
	}
	if e.Raw {
		s += ",raw"
	}
	return s + ")"
}

const (
	Never   = 99   // ordinal meaning "an id that was never issued"
	NeverID = 9999 // the raw id used for it
)

// Error codes.
const (
	BadRequest    = 400
	Unauthorized  = 401
	NotFound      = 404
	Conflict      = 409
	TooLarge      = 413
	NotJoined     = 460
	AlreadyJoined = 461
	Internal      = 500
	TooBusy       = 503
)

type Pose struct {
	Set bool
	PX  float32
}

type MEntity struct {
	Ord     int
	ID      uint32 // server id (bound from the add response)
	Owner   uint32 // participant id of the creator
	OwnerC  int    // connection that created it
	Persist bool
	Flag    int32
	Pose    Pose
	Live    bool
}

type MType struct {
	Ord  int
	Name string
	ID   uint32
}

type MAction struct {
	Ent  uint32
	Name string
	TS   int64 // client timestamp seconds
	Data string
}

type MAsset struct {
	ID    uint32 // instance id
	Asset string
	By    uint32
	Ent   uint32
}

type CompKey struct{ T, E uint32 }

type MSession struct {
	Tok      int
	ID       string
	UUID     string
	Live     bool
	Members  map[int]uint32 // conn -> participant id
	PartSeen map[uint32]bool
	Entities []*MEntity
	EntSeen  map[uint32]bool
	Types    []*MType
	Comps    map[CompKey]string
	Subs     map[uint32]map[int]bool // type id -> conns
	Actions  map[uint32]map[string]MAction
	Assets   map[uint32]MAsset
	AssetIDs map[uint32]bool
	Joins    int
	Quads    []string // ground-plane samples (canonical), non-merging lattice only
}

type pendingUpd struct {
	Key   string // "p:<eid>" or "c:<tid>:<eid>"
	Seq   int    // arrival order
	T, E  uint32
	Pose  Pose
	HasP  bool // pose present in the message
	Data  string
	TS    int64
	IsCmp bool
}

type MConn struct {
	Idx     int
	Open    bool
	Used    bool // has acted at least once (symmetry breaking)
	Sess    *MSession
	PID     uint32
	Pending map[string]*pendingUpd
	View    *View
	// BaseValid[type id]: the connection's copy of that type's components is
	// known to be current (see DESIGN 5.2).
	BaseValid map[uint32]bool
}

type Mods struct{ Vikja, Odal, Dagaz bool }

type Model struct {
	Conns    []*MConn
	Sessions []*MSession
	Mods     Mods
	Flags    map[string]bool
	seq      int
	ValSeq   int // source of fresh pose / data values
}

func NewModel(nconn int, mods Mods, flags []string) *Model {
	m := &Model{Mods: mods, Flags: map[string]bool{}}
	for _, f := range flags {
		m.Flags[f] = true
	}
	for i := 0; i < nconn; i++ {
		m.Conns = append(m.Conns, &MConn{Idx: i, Open: true, Pending: map[string]*pendingUpd{}})
	}
	return m
}

func (s *MSession) entByOrd(o int) *MEntity {
	if o >= 0 && o < len(s.Entities) {
		return s.Entities[o]
	}
	return nil
}

func (s *MSession) liveEnt(id uint32) *MEntity {
	for _, e := range s.Entities {
		if e.Live && e.ID == id {
			return e
		}
	}
	return nil
}

func (s *MSession) typeByID(id uint32) *MType {
	for _, t := range s.Types {
		if t.ID == id {
			return t
		}
	}
	return nil
}

func (s *MSession) typeByName(n string) *MType {
	for _, t := range s.Types {
		if t.Name == n {
			return t
		}
	}
	return nil
}

func (s *MSession) memberConns() []int {
	var out []int
	for c := range s.Members {
		out = append(out, c)
	}
	sort.Ints(out)
	return out
}

func (s *MSession) others(c int) []int {
	var out []int
	for _, o := range s.memberConns() {
		if o != c {
			out = append(out, o)
		}
	}
	return out
}

func (s *MSession) hasSubscribers(t uint32) bool { return len(s.Subs[t]) > 0 }

func (m *Model) liveSessionByID(id string) *MSession {
	for _, s := range m.Sessions {
		if s.Live && s.ID == id {
			return s
		}
	}
	return nil
}

// EntityID resolves an entity parameter to the raw id sent on the wire.
func (m *Model) EntityID(c *MConn, ord int, raw bool) uint32 {
	if raw {
		return uint32(ord)
	}
	if ord == Never || c.Sess == nil {
		if c.Sess == nil && ord != Never {
			return uint32(ord + 1) // unjoined: a plausible small id
		}
		return NeverID
	}
	if e := c.Sess.entByOrd(ord); e != nil {
		return e.ID
	}
	return NeverID
}

func (m *Model) TypeID(c *MConn, ord int, raw bool) uint32 {
	if raw {
		return uint32(ord)
	}
	if ord == Never || c.Sess == nil {
		if c.Sess == nil && ord != Never {
			return uint32(ord + 1)
		}
		return NeverID
	}
	if ord >= 0 && ord < len(c.Sess.Types) {
		return c.Sess.Types[ord].ID
	}
	return NeverID
}

var TypeNames = []string{"T0", "T1", ""}
var ActionNames = []string{"n0", "n1", ""}
var AssetNames = []string{"", "ax", "ay"}

// ActionTS maps a timestamp index to a client time in nanoseconds: t0 < t1
// within the same second, t2 later; 3 = no timestamp; 4 = the zero time.
var ActionTS = []int64{100_100_000_000, 100_900_000_000, 300_000_000_000, -1, 0}

// Key returns the canonical state key (values renamed by rank).
func (m *Model) Key() string {
	var sb strings.Builder
	vals := map[string]bool{}
	collect := func(v string) { vals[v] = true }
	for _, s := range m.Sessions {
		if !s.Live {
			continue
		}
		for _, e := range s.Entities {
			if e.Live {
				collect(fmt.Sprint(e.Pose.PX))
			}
		}
		for _, d := range s.Comps {
			collect(d)
		}
		for _, as := range s.Actions {
			for _, a := range as {
				collect(a.Data)
			}
		}
	}
	for _, c := range m.Conns {
		for _, p := range c.Pending {
			collect(fmt.Sprint(p.Pose.PX))
			collect(p.Data)
		}
	}
	var vs []string
	for v := range vals {
		vs = append(vs, v)
	}
	sort.Slice(vs, func(i, j int) bool {
		if len(vs[i]) != len(vs[j]) {
			return len(vs[i]) < len(vs[j])
		}
		return vs[i] < vs[j]
	})
	rank := map[string]int{}
	for i, v := range vs {
		rank[v] = i
	}
	for _, c := range m.Conns {
		fmt.Fprintf(&sb, "c%d:", c.Idx)
		if !c.Open {
			// what a gone connection left pending still matters: frames keep coming
			fmt.Fprintf(&sb, "closed(pending=%d);", len(c.Pending))
			continue
		}
		if !c.Used {
			sb.WriteString("fresh;")
			continue
		}
		if c.Sess != nil {
			fmt.Fprintf(&sb, "s%d/p%d", c.Sess.Tok, c.PID)
		} else {
			sb.WriteString("-")
		}
		var pk []string
		for k := range c.Pending {
			pk = append(pk, k)
		}
		sort.Strings(pk)
		for _, k := range pk {
			p := c.Pending[k]
			fmt.Fprintf(&sb, " pend[%s=%v/%d/%d]", k, p.HasP, rank[fmt.Sprint(p.Pose.PX)], rank[p.Data])
		}
		var bv []int
		for t, ok := range c.BaseValid {
			if ok {
				bv = append(bv, int(t))
			}
		}
		sort.Ints(bv)
		fmt.Fprintf(&sb, " bv%v;", bv)
	}
	for _, s := range m.Sessions {
		if !s.Live {
			fmt.Fprintf(&sb, "|dead s%d id=%s", s.Tok, s.ID)
			continue
		}
		fmt.Fprintf(&sb, "|s%d id=%s joins=%d ents=%d:", s.Tok, s.ID, s.Joins, len(s.Entities))
		for _, e := range s.Entities {
			if e.Live {
				fmt.Fprintf(&sb, "e%d(o%d,%v,%d,p%d)", e.ID, e.Owner, e.Persist, e.Flag, rank[fmt.Sprint(e.Pose.PX)])
			} else {
				fmt.Fprintf(&sb, "e%d(dead)", e.ID)
			}
		}
		for _, t := range s.Types {
			fmt.Fprintf(&sb, " t%d=%s", t.ID, t.Name)
			var subs []int
			for c := range s.Subs[t.ID] {
				subs = append(subs, c)
			}
			sort.Ints(subs)
			fmt.Fprintf(&sb, "%v", subs)
		}
		var cks []CompKey
		for k := range s.Comps {
			cks = append(cks, k)
		}
		sort.Slice(cks, func(i, j int) bool {
			if cks[i].T != cks[j].T {
				return cks[i].T < cks[j].T
			}
			return cks[i].E < cks[j].E
		})
		for _, k := range cks {
			fmt.Fprintf(&sb, " k(%d,%d)=%d", k.T, k.E, rank[s.Comps[k]])
		}
		var aes []int
		for e := range s.Actions {
			aes = append(aes, int(e))
		}
		sort.Ints(aes)
		for _, e := range aes {
			var ns []string
			for n := range s.Actions[uint32(e)] {
				ns = append(ns, n)
			}
			sort.Strings(ns)
			for _, n := range ns {
				a := s.Actions[uint32(e)][n]
				fmt.Fprintf(&sb, " a(%d,%s,%d,%d)", e, n, a.TS, rank[a.Data])
			}
		}
		var ses []int
		for e := range s.Assets {
			ses = append(ses, int(e))
		}
		sort.Ints(ses)
		for _, e := range ses {
			a := s.Assets[uint32(e)]
			fmt.Fprintf(&sb, " i(%d,%s,%d,#%d)", e, a.Asset, a.By, a.ID)
		}
		fmt.Fprintf(&sb, " assets#%d quads%v", len(s.AssetIDs), s.Quads)
	}
	return sb.String()
}
