package s1

import (
	"fmt"

	"verif/world"
)

// Family is a BFS search space: a setup history, then an alphabet of events
// enabled in each state.
type Family struct {
	Name    string
	NConn   int
	Cfg     world.Config
	Setup   []Ev
	Enabled func(m *Model) []Ev
	TagC03  bool
	Tags    []string
	// RelayTags: properties a wrong relay in this family is evidence against,
	// besides C02 and the event's own (the subscriptions family: a notification
	// owed to a subscription that should have ended with a departure is C06's)
	RelayTags []string
	Doc       string
}

var Families = map[string]*Family{}

func reg(f *Family) { Families[f.Name] = f }

// canAct: symmetry breaking — connection k may act only after k-1 has
// (all connections start identical). Connections used by the setup count.
func canAct(m *Model, c int) bool {
	if !m.Conns[c].Open {
		return false
	}
	return c == 0 || m.Conns[c-1].Used
}

func liveSessions(m *Model) []*MSession {
	var out []*MSession
	for _, s := range m.Sessions {
		if s.Live {
			out = append(out, s)
		}
	}
	return out
}

// dropConflicting removes component updates whose (type, entity) key already
// has a pending update from ANOTHER connection (of any session: it may switch
// before the next frame): which of
// two writers of one key is processed last within a frame is the server's free
// choice (both orders are legitimate), so the model cannot name one outcome.
func dropConflicting(m *Model, evs []Ev) []Ev {
	out := evs[:0]
	for _, e := range evs {
		if e.K == "cupd" {
			c := m.Conns[e.C]
			key := "c:" + itoa(m.TypeID(c, e.X, e.Raw)) + ":" + itoa(m.EntityID(c, e.Y, e.Raw))
			conflict := false
			for _, o := range m.Conns {
				if o != c && o.Open {
					if _, ok := o.Pending[key]; ok {
						conflict = true
					}
				}
			}
			if conflict {
				continue
			}
		}
		out = append(out, e)
	}
	return out
}

func itoa(u uint32) string { return fmt.Sprint(u) }

func anyPending(m *Model) bool {
	for _, c := range m.Conns {
		if c.Open && c.Sess != nil && len(c.Pending) > 0 {
			return true
		}
	}
	return false
}

func init() {
	// ---- lifecycle: joins, switches, departures, id reuse --------------------
	reg(&Family{
		Name: "lifecycle", NConn: 3, Tags: []string{"C07", "C10", "C04"},
		Doc: "3 connections; join new / join any session ever created (live, or ended: stale or reused id) / join unknown / join an id of another server with the numeric part of a live session / join own / close",
		Enabled: func(m *Model) []Ev {
			var evs []Ev
			for c := range m.Conns {
				if !canAct(m, c) {
					continue
				}
				mc := m.Conns[c]
				if len(liveSessions(m)) < 3 && len(m.Sessions) < 4 {
					evs = append(evs, Ev{K: "join", C: c, X: -1})
				}
				seen := map[string]bool{}
				for _, s := range m.Sessions {
					if seen[s.ID] {
						continue
					}
					seen[s.ID] = true
					evs = append(evs, Ev{K: "join", C: c, X: s.Tok})
				}
				if mc.Sess != nil || c == 0 {
					evs = append(evs, Ev{K: "join", C: c, X: -2})
				}
				if c <= 1 && len(liveSessions(m)) > 0 {
					evs = append(evs, Ev{K: "join", C: c, X: -3}) // a foreign server's id with the same numeric part
				}
				if c == 0 {
					evs = append(evs, Ev{K: "ping", C: c}) // allowed in and out of a session
				}
				evs = append(evs, Ev{K: "close", C: c})
			}
			return evs
		},
	})

	// ---- entities: add / delete / pose / frames / departures ------------------
	reg(&Family{
		Name: "entities", NConn: 3, Tags: []string{"C02", "C04", "C05", "C06", "C10", "C11"},
		Doc: "3 connections, <=2 sessions, <=2 entities per session; join new/existing/own/unknown, close, entity add (persistent or not), delete of every entity ordinal (live, deleted, never issued) by anyone, pose update of every live entity by anyone, frame tick",
		Enabled: func(m *Model) []Ev {
			var evs []Ev
			for c := range m.Conns {
				if !canAct(m, c) {
					continue
				}
				mc := m.Conns[c]
				if len(m.Sessions) < 2 {
					evs = append(evs, Ev{K: "join", C: c, X: -1})
				}
				for _, s := range liveSessions(m) {
					evs = append(evs, Ev{K: "join", C: c, X: s.Tok})
				}
				if mc.Sess == nil {
					if c == 0 {
						evs = append(evs, Ev{K: "eadd", C: c}) // session-scoped request while in no session
					}
					continue
				}
				if c == 0 {
					evs = append(evs, Ev{K: "join", C: c, X: -2})
				}
				evs = append(evs, Ev{K: "close", C: c})
				nlive := 0
				for _, e := range mc.Sess.Entities {
					if e.Live {
						nlive++
					}
				}
				if len(mc.Sess.Entities) < 2 {
					evs = append(evs, Ev{K: "eadd", C: c, X: 0}, Ev{K: "eadd", C: c, X: 1})
				}
				for _, e := range mc.Sess.Entities {
					evs = append(evs, Ev{K: "edel", C: c, X: e.Ord})
					if e.Live {
						evs = append(evs, Ev{K: "pose", C: c, X: e.Ord})
					}
				}
				if c == 0 {
					evs = append(evs, Ev{K: "edel", C: c, X: Never})
				}
			}
			if anyPending(m) {
				evs = append(evs, Ev{K: "tick"})
			}
			return evs
		},
	})

	// ---- components and subscriptions ------------------------------------------
	compSetup := []Ev{
		{K: "join", C: 0, X: -1}, {K: "join", C: 1, X: 0}, {K: "join", C: 2, X: 0},
		{K: "eadd", C: 0, X: 0}, {K: "eadd", C: 1, X: 1}, {K: "tadd", C: 0, X: 0},
	}
	reg(&Family{
		Name: "components", NConn: 3, Setup: compSetup, Tags: []string{"C02", "C06", "C12", "C13"},
		Doc: "session {c0,c1,c2}; e0 (c0, non-persistent), e1 (c1, persistent); type T0 registered. c0 writes (add/update/delete components of T0/T1 on e0/e1, registers T1, deletes e0, leaves); c1 subscribes/unsubscribes/lists/updates/deletes/adds (incl. a component that was never added, and a duplicate add); c2 subscribes/lists/leaves; name/id look-ups; frame tick",
		Enabled: func(m *Model) []Ev {
			var evs []Ev
			if c := m.Conns[0]; c.Open && c.Sess != nil {
				evs = append(evs,
					Ev{K: "cadd", C: 0, X: 0, Y: 0}, Ev{K: "cadd", C: 0, X: 0, Y: 1},
					Ev{K: "cupd", C: 0, X: 0, Y: 0}, Ev{K: "cdel", C: 0, X: 0, Y: 0},
					Ev{K: "edel", C: 0, X: 0}, Ev{K: "close", C: 0})
				if len(c.Sess.Types) < 2 {
					evs = append(evs, Ev{K: "tadd", C: 0, X: 1})
				} else {
					evs = append(evs, Ev{K: "cadd", C: 0, X: 1, Y: 0})
				}
			}
			if c := m.Conns[1]; c.Open && c.Sess != nil {
				evs = append(evs,
					Ev{K: "sub", C: 1, X: 0}, Ev{K: "unsub", C: 1, X: 0},
					Ev{K: "cupd", C: 1, X: 0, Y: 0}, Ev{K: "cupd", C: 1, X: 0, Y: 1},
					Ev{K: "clist", C: 1, X: 0}, Ev{K: "cdel", C: 1, X: 0, Y: 0},
					Ev{K: "cadd", C: 1, X: 0, Y: 0}, Ev{K: "close", C: 1},
					Ev{K: "edel", C: 1, X: 0}) // not the owner: refused, must change nothing
			}
			if c := m.Conns[2]; c.Open && c.Sess != nil {
				evs = append(evs, Ev{K: "sub", C: 2, X: 0}, Ev{K: "clist", C: 2, X: 0}, Ev{K: "close", C: 2})
				if len(c.Sess.Types) > 1 {
					evs = append(evs, Ev{K: "sub", C: 2, X: 1})
				}
			}
			if anyPending(m) {
				evs = append(evs, Ev{K: "tick"})
			}
			return dropConflicting(m, evs)
		},
	})
	reg(&Family{
		Name: "components-ids", NConn: 2, Tags: []string{"C04", "C12", "C13"}, Setup: []Ev{{K: "join", C: 0, X: -1}, {K: "join", C: 1, X: 0}, {K: "eadd", C: 0, X: 0}},
		Doc: "session {c0,c1}, one entity: every component request with ids that exist, never existed (9999), are zero, or no longer exist; type names T0, T1 and the empty name; look-ups in both directions",
		Enabled: func(m *Model) []Ev {
			var evs []Ev
			c := m.Conns[0]
			if !c.Open || c.Sess == nil {
				return nil
			}
			for _, n := range []int{0, 1, 2} {
				evs = append(evs, Ev{K: "tadd", C: 0, X: n}, Ev{K: "getid", C: 0, X: n})
			}
			tords := []int{0, 1, Never}
			for _, t := range tords {
				evs = append(evs, Ev{K: "getname", C: 0, X: t}, Ev{K: "sub", C: 1, X: t}, Ev{K: "clist", C: 1, X: t})
				for _, e := range []int{0, Never} {
					evs = append(evs, Ev{K: "cadd", C: 0, X: t, Y: e}, Ev{K: "cdel", C: 0, X: t, Y: e}, Ev{K: "cupd", C: 0, X: t, Y: e})
				}
			}
			evs = append(evs,
				Ev{K: "getname", C: 0, X: 0, Raw: true}, Ev{K: "cadd", C: 0, X: 0, Y: 1, Raw: true}, Ev{K: "cadd", C: 0, X: 1, Y: 0, Raw: true},
				Ev{K: "cdel", C: 0, X: 0, Y: 1, Raw: true}, Ev{K: "cupd", C: 0, X: 0, Y: 1, Raw: true}, Ev{K: "clist", C: 1, X: 0, Raw: true},
				Ev{K: "sub", C: 1, X: 0, Raw: true}, Ev{K: "unsub", C: 1, X: 0, Raw: true}, Ev{K: "unsub", C: 1, X: 0},
				Ev{K: "edel", C: 0, X: 0})
			if anyPending(m) {
				evs = append(evs, Ev{K: "tick"})
			}
			return evs
		},
	})

	// ---- modules: entity actions and asset instances -----------------------------
	reg(&Family{
		Name: "modules", NConn: 3, Tags: []string{"C02", "C05", "C06", "C16"}, Cfg: world.Config{Modules: []string{"vikja", "odal", "dagaz"}},
		Setup: []Ev{{K: "join", C: 0, X: -1}, {K: "join", C: 1, X: 0}, {K: "eadd", C: 0, X: 0}, {K: "eadd", C: 1, X: 1}},
		Doc:   "session {c0,c1}, all modules; e0 (c0, non-persistent), e1 (c1, persistent); actions with timestamps t0<t1<t2, equal, zero and missing, names n0/n1/empty, entities own/foreign/never; assets ax/ay/empty on own/foreign/never; entity deletes by owner and non-owner of the persistent and the non-persistent entity, departures, a late joiner c2",
		Enabled: func(m *Model) []Ev {
			var evs []Ev
			if c := m.Conns[0]; c.Open && c.Sess != nil {
				for z := 0; z < 3; z++ {
					evs = append(evs, Ev{K: "action", C: 0, X: 0, Y: 0, Z: z})
				}
				evs = append(evs,
					Ev{K: "action", C: 0, X: 0, Y: 1, Z: 1}, Ev{K: "action", C: 0, X: 1, Y: 0, Z: 1}, Ev{K: "action", C: 0, X: Never, Y: 0, Z: 1},
					Ev{K: "action", C: 0, X: 0, Y: 2, Z: 1}, Ev{K: "action", C: 0, X: 0, Y: 0, Z: 3}, Ev{K: "action", C: 0, X: 0, Y: 0, Z: 4}, Ev{K: "action", C: 0, X: 0, Y: 0, Z: 5},
					Ev{K: "asset", C: 0, X: 0, Y: 1}, Ev{K: "asset", C: 0, X: 0, Y: 2}, Ev{K: "asset", C: 0, X: 1, Y: 1}, Ev{K: "asset", C: 0, X: 0, Y: 0}, Ev{K: "asset", C: 0, X: Never, Y: 1},
					Ev{K: "edel", C: 0, X: 0}, Ev{K: "edel", C: 0, X: 1}, Ev{K: "close", C: 0})
				if len(m.Sessions) < 2 {
					evs = append(evs, Ev{K: "join", C: 0, X: -1}) // leaves by switching to a new session
				}
			}
			if c := m.Conns[1]; c.Open && c.Sess != nil {
				evs = append(evs, Ev{K: "action", C: 1, X: 0, Y: 0, Z: 0}, Ev{K: "action", C: 1, X: 0, Y: 0, Z: 2}, Ev{K: "action", C: 1, X: 1, Y: 0, Z: 1},
					Ev{K: "asset", C: 1, X: 1, Y: 1}, Ev{K: "edel", C: 1, X: 1}, Ev{K: "edel", C: 1, X: 0}, Ev{K: "close", C: 1})
			}
			if c := m.Conns[2]; c.Open {
				if c.Sess == nil {
					for _, s := range liveSessions(m) {
						evs = append(evs, Ev{K: "join", C: 2, X: s.Tok})
					}
				} else {
					evs = append(evs, Ev{K: "close", C: 2})
				}
			}
			return evs
		},
	})
}

func init() {
	// ---- two sessions with coinciding ids (C03) ---------------------------------
	reg(&Family{
		Name: "two-sessions", NConn: 4, TagC03: true, Tags: []string{"C03"},
		Cfg: world.Config{Modules: []string{"vikja", "odal", "dagaz"}},
		Setup: []Ev{
			{K: "join", C: 0, X: -1}, {K: "join", C: 1, X: -1}, // S0={c0}, S1={c1}: participant 1 in each
			{K: "eadd", C: 0, X: 0}, {K: "eadd", C: 1, X: 1}, // entity 1 in each
			{K: "tadd", C: 0, X: 0}, {K: "tadd", C: 1, X: 0}, // type 1 in each
			{K: "sub", C: 0, X: 0}, {K: "sub", C: 1, X: 0},
			{K: "cadd", C: 1, X: 0, Y: 0},
		},
		Doc: "S0={c0}, S1={c1} with coinciding participant/entity/type ids (1 in each), a component only in S1; c2 never joined, c3 joins/switches; requests naming raw ids that are valid only in the other session (entity 2, participant 2, type 2), custom messages to foreign participant ids, actions/assets/ground-plane samples, departures and a session id reused after its session ended",
		Enabled: func(m *Model) []Ev {
			var evs []Ev
			if c := m.Conns[0]; c.Open && c.Sess != nil {
				evs = append(evs,
					Ev{K: "edel", C: 0, X: 2, Raw: true}, Ev{K: "edel", C: 0, X: 1, Raw: true},
					Ev{K: "cupd", C: 0, X: 1, Y: 1, Raw: true}, Ev{K: "cdel", C: 0, X: 1, Y: 1, Raw: true}, Ev{K: "clist", C: 0, X: 1, Raw: true},
					Ev{K: "custom", C: 0, X: 3}, Ev{K: "custom", C: 0, X: 0},
					Ev{K: "action", C: 0, X: 2, Y: 0, Z: 1, Raw: true}, Ev{K: "action", C: 0, X: 1, Y: 0, Z: 1, Raw: true},
					Ev{K: "asset", C: 0, X: 2, Y: 1, Raw: true}, Ev{K: "asset", C: 0, X: 1, Y: 1, Raw: true},
					Ev{K: "pose", C: 0, X: 2, Raw: true}, Ev{K: "pose", C: 0, X: 1, Raw: true},
					Ev{K: "quad", C: 0, X: 0}, Ev{K: "region", C: 0},
					Ev{K: "close", C: 0})
				for _, s := range m.Sessions {
					if s.Live && s != c.Sess {
						evs = append(evs, Ev{K: "join", C: 0, X: s.Tok})
					}
				}
			}
			if c := m.Conns[1]; c.Open && c.Sess != nil {
				evs = append(evs, Ev{K: "eadd", C: 1, X: 0}, Ev{K: "region", C: 1}, Ev{K: "quad", C: 1, X: 1}, Ev{K: "cupd", C: 1, X: 0, Y: 0}, Ev{K: "close", C: 1})
			}
			if c := m.Conns[2]; c.Open && c.Sess == nil {
				evs = append(evs, Ev{K: "custom", C: 2, X: 0}, Ev{K: "edel", C: 2, X: 1, Raw: true}, Ev{K: "quad", C: 2, X: 2}, Ev{K: "pose", C: 2, X: 1, Raw: true}, Ev{K: "cupd", C: 2, X: 1, Y: 1, Raw: true})
			}
			if c := m.Conns[3]; c.Open {
				seen := map[string]bool{}
				for _, s := range m.Sessions {
					if !seen[s.ID] && (c.Sess == nil || s.ID != c.Sess.ID) {
						seen[s.ID] = true
						evs = append(evs, Ev{K: "join", C: 3, X: s.Tok})
					}
				}
				if c.Sess != nil {
					evs = append(evs, Ev{K: "eadd", C: 3, X: 0}, Ev{K: "custom", C: 3, X: 3}, Ev{K: "close", C: 3}, Ev{K: "region", C: 3})
					// attachments on its own newest entity: module state must follow the connection into the session it switched to
					for i := len(c.Sess.Entities) - 1; i >= 0; i-- {
						if e := c.Sess.Entities[i]; e.Live && e.OwnerC == 3 && e.Owner == c.PID {
							evs = append(evs, Ev{K: "asset", C: 3, X: e.Ord, Y: 1}, Ev{K: "action", C: 3, X: e.Ord, Y: 0, Z: 1})
							break
						}
					}
				} else if len(m.Sessions) < 3 {
					evs = append(evs, Ev{K: "join", C: 3, X: -1})
				}
			}
			if anyPending(m) {
				evs = append(evs, Ev{K: "tick"})
			}
			return dropConflicting(m, evs)
		},
	})
	// ---- ground plane at session level (C20 c) -------------------------------------
	reg(&Family{
		Name: "groundplane", NConn: 3, Tags: []string{"C20"},
		Cfg:   world.Config{Modules: []string{"dagaz"}},
		Setup: []Ev{{K: "join", C: 0, X: -1}},
		Doc:   "one session, dagaz only: c0 and c1 insert samples on a lattice of disjoint footprints (no merges), c1/c2 join, leave and re-join, everybody queries the whole region",
		Enabled: func(m *Model) []Ev {
			var evs []Ev
			for c := 0; c < 3; c++ {
				mc := m.Conns[c]
				if !mc.Open {
					continue
				}
				if mc.Sess == nil {
					for _, s := range liveSessions(m) {
						evs = append(evs, Ev{K: "join", C: c, X: s.Tok})
					}
					continue
				}
				evs = append(evs, Ev{K: "region", C: c})
				if c == 0 {
					evs = append(evs, Ev{K: "ground", C: c, X: len(mc.Sess.Quads)}, Ev{K: "debug", C: c})
				}
				if c < 2 && len(mc.Sess.Quads) < 4 {
					evs = append(evs, Ev{K: "quad", C: c, X: len(mc.Sess.Quads)})
				}
				if c > 0 {
					evs = append(evs, Ev{K: "close", C: c})
				}
			}
			return evs
		},
	})
}

func init() {
	// ---- membership churn around a pose source (frame handler registration) ---------
	reg(&Family{
		Name: "pose-churn", NConn: 4, Tags: []string{"C11", "C02"},
		Setup: []Ev{{K: "join", C: 0, X: -1}, {K: "join", C: 1, X: 0}, {K: "eadd", C: 1, X: 0}},
		Doc:   "session {c0,c1}, c1 owns an entity and keeps sending pose updates (new values and the value the entity already has); c0, c2, c3 join, leave and re-join around it; frame ticks",
		Enabled: func(m *Model) []Ev {
			var evs []Ev
			for _, c := range []int{0, 2, 3} {
				mc := m.Conns[c]
				if !mc.Open {
					continue
				}
				if mc.Sess == nil {
					for _, s := range liveSessions(m) {
						evs = append(evs, Ev{K: "join", C: c, X: s.Tok})
					}
				} else {
					evs = append(evs, Ev{K: "close", C: c})
				}
			}
			if c := m.Conns[1]; c.Open && c.Sess != nil {
				// Y=1: an update carrying the pose the entity already has (still a
				// processed pose update: relayed once to every other member)
				evs = append(evs, Ev{K: "pose", C: 1, X: 0}, Ev{K: "pose", C: 1, X: 0, Y: 1}, Ev{K: "close", C: 1})
				if len(m.Sessions) < 2 {
					evs = append(evs, Ev{K: "join", C: 1, X: -1}) // switch with an update possibly pending
				}
			}
			// frames keep coming whoever has left meanwhile
			pending := false
			for _, c := range m.Conns {
				if len(c.Pending) > 0 {
					pending = true
				}
			}
			if pending && len(liveSessions(m)) > 0 {
				evs = append(evs, Ev{K: "tick"})
			}
			return evs
		},
	})
}

func init() {
	// ---- subscription churn: idempotent (un)subscribes, departures of subscribers,
	// subscriptions after a session switch ----------------------------------------
	reg(&Family{
		Name: "subscriptions", NConn: 3, Tags: []string{"C13", "C06", "C12"}, RelayTags: []string{"C13", "C06"},
		Setup: []Ev{
			{K: "join", C: 0, X: -1}, {K: "join", C: 1, X: 0}, {K: "join", C: 2, X: 0},
			{K: "tadd", C: 0, X: 0}, {K: "tadd", C: 0, X: 1}, {K: "eadd", C: 0, X: 0},
		},
		Doc: "session {c0,c1,c2}, types T0 and T1, entity e0 of c0; c2 subscribes / unsubscribes (also twice, also to a type only c1 is subscribed to), leaves by closing or by switching to a fresh session where it subscribes to the same numeric type id (unregistered there), registers a type and subscribes again; c1 subscribes to T1; c0 adds / deletes components of both types after each of these",
		Enabled: func(m *Model) []Ev {
			var evs []Ev
			if c := m.Conns[2]; c.Open && c.Sess != nil {
				if c.Sess == m.Sessions[0] {
					evs = append(evs, Ev{K: "sub", C: 2, X: 0}, Ev{K: "sub", C: 2, X: 1}, Ev{K: "unsub", C: 2, X: 0}, Ev{K: "unsub", C: 2, X: 1}, Ev{K: "close", C: 2})
					if len(m.Sessions) < 2 {
						evs = append(evs, Ev{K: "join", C: 2, X: -1})
					}
				} else {
					// in its own fresh session: the numeric ids of the old session mean nothing here
					evs = append(evs, Ev{K: "sub", C: 2, X: 1, Raw: true}, Ev{K: "tadd", C: 2, X: 0}, Ev{K: "sub", C: 2, X: 0}, Ev{K: "unsub", C: 2, X: 1, Raw: true})
					if m.Sessions[0].Live {
						evs = append(evs, Ev{K: "join", C: 2, X: 0}) // and back
					}
				}
			}
			if c := m.Conns[1]; c.Open && c.Sess != nil {
				evs = append(evs, Ev{K: "sub", C: 1, X: 1})
			}
			if c := m.Conns[0]; c.Open && c.Sess != nil {
				evs = append(evs, Ev{K: "cadd", C: 0, X: 0, Y: 0}, Ev{K: "cadd", C: 0, X: 1, Y: 0}, Ev{K: "cdel", C: 0, X: 0, Y: 0}, Ev{K: "cdel", C: 0, X: 1, Y: 0})
			}
			return evs
		},
	})
}

func init() {
	// ---- ownership across a session switch: the same numeric entity id belongs to the
	// connection in one session and to somebody else in the other ------------------
	reg(&Family{
		Name: "own-switch", NConn: 3, TagC03: true, Tags: []string{"C05", "C03", "C11"},
		Cfg: world.Config{Modules: []string{"vikja", "odal"}},
		Setup: []Ev{
			{K: "join", C: 0, X: -1}, {K: "join", C: 1, X: -1}, // S0={c0}, S1={c1}
			{K: "eadd", C: 0, X: 0}, {K: "eadd", C: 1, X: 0}, // entity 1 in each, both non-persistent
			{K: "join", C: 2, X: 1}, // a witness in S1
		},
		Doc: "S0={c0}, S1={c1,c2}; entity id 1 exists in both, owned by c0 in S0 and by c1 in S1; c0 moves / deletes / attaches an asset to raw id 1, switches to S1 and back, does the same there (now foreign), leaves again (a departure removes the leaver's own entities only), frames tick; c1 moves its own entity",
		Enabled: func(m *Model) []Ev {
			var evs []Ev
			if c := m.Conns[0]; c.Open && c.Sess != nil {
				evs = append(evs, Ev{K: "pose", C: 0, X: 1, Raw: true}, Ev{K: "edel", C: 0, X: 1, Raw: true}, Ev{K: "asset", C: 0, X: 1, Y: 1, Raw: true})
				for _, s := range m.Sessions {
					if s.Live && s != c.Sess {
						evs = append(evs, Ev{K: "join", C: 0, X: s.Tok})
					}
				}
				if len(m.Sessions) < 3 {
					evs = append(evs, Ev{K: "join", C: 0, X: -1}, Ev{K: "eadd", C: 0, X: 0})
				}
			}
			if c := m.Conns[1]; c.Open && c.Sess != nil {
				evs = append(evs, Ev{K: "pose", C: 1, X: 1, Raw: true})
			}
			if anyPending(m) {
				evs = append(evs, Ev{K: "tick"})
			}
			return evs
		},
	})
}
