package s1

import "verif/canon"

// HistResult is what executing one history yields.
type HistResult struct {
	Key     string   `json:"key"`
	Viols   []Viol   `json:"viols,omitempty"`
	Enabled []Ev     `json:"enabled,omitempty"`
	Trace   []string `json:"trace,omitempty"`
	Steps   int      `json:"steps"`
	HitCap  bool     `json:"hit_cap,omitempty"`
}

// RunHistory executes setup + hist on a fresh world, checking every step,
// then probes every live session and tears the world down.
func RunHistory(f *Family, hist []Ev, flags []string, wantTrace bool) (res HistResult) {
	return RunHistoryOpt(f, hist, flags, wantTrace, wantTrace)
}

// RunHistoryOpt: with allSteps the violations of every step are returned,
// otherwise only those of the last event, the probe and the teardown (the
// earlier ones were reported when the prefix was explored).
func RunHistoryOpt(f *Family, hist []Ev, flags []string, wantTrace, allSteps bool) (res HistResult) {
	cfg := f.Cfg
	cfg.Flags = flags
	r := NewRunner(cfg, f.NConn)
	r.TagC03 = f.TagC03
	r.FamTags = f.Tags
	r.RelayTags = f.RelayTags
	defer func() {
		if p := recover(); p != nil {
			func() {
				defer func() { recover() }()
				r.W.Finish()
			}()
			panic(p)
		}
	}()
	for _, ev := range f.Setup {
		r.Do(ev)
	}
	nsetup := r.step
	for _, ev := range hist {
		r.Do(ev)
	}
	// canonical state key: reference model state (values renamed by rank) plus
	// a structural digest of the server's memory
	roots := []any{r.W.Store}
	for _, c := range r.Cl {
		if c.RH != nil && r.M.Conns[c.Idx].Open {
			roots = append(roots, c.RH)
		}
	}
	res.Key = r.M.Key() + " #impl=" + canon.Digest(roots...)
	res.Enabled = f.Enabled(r.M)
	last := r.step
	r.Probe()
	r.Finish()
	res.Steps = r.W.S.Steps
	res.HitCap = r.W.S.HitCap
	_ = nsetup
	for _, v := range r.V {
		// violations of earlier steps were reported when the prefix was explored
		if allSteps || len(hist) == 0 || v.Step >= last {
			res.Viols = append(res.Viols, v)
		}
	}
	if wantTrace || len(res.Viols) > 0 {
		res.Trace = r.Trace
	}
	return res
}
