package s1

import (
	"fmt"
	"sort"
	"strings"

	"github.com/aukilabs/hagall-common/messages/hagallpb"
	"github.com/aukilabs/hagall-common/messages/odalpb"
	"github.com/aukilabs/hagall-common/messages/vikjapb"

	"verif/world"
)

// View is the replica a client builds only from what it received (state on
// joining, then every broadcast in arrival order) plus the successes of its
// own requests.
type View struct {
	Joined  bool
	PIDs    map[uint32]bool
	Ents    map[uint32]string // id -> canonical entity
	Comps   map[CompKey]string
	Actions map[string]string // "ent/name" -> canonical action
	Assets  map[uint32]string // entity -> canonical asset
}

func NewView() *View {
	return &View{PIDs: map[uint32]bool{}, Ents: map[uint32]string{}, Comps: map[CompKey]string{}, Actions: map[string]string{}, Assets: map[uint32]string{}}
}

func (v *View) dropEntity(id uint32) {
	delete(v.Ents, id)
	for k := range v.Comps {
		if k.E == id {
			delete(v.Comps, k)
		}
	}
	for k := range v.Actions {
		if strings.HasPrefix(k, fmt.Sprintf("%d/", id)) {
			delete(v.Actions, k)
		}
	}
	delete(v.Assets, id)
}

// Apply applies one received message. baseValid tells for which component
// types the copy is known to be current (only then is applicability judged).
// Returns a description if the message cannot be applied.
func (v *View) Apply(r *world.Recv, baseValid map[uint32]bool) string {
	switch x := r.Msg.(type) {
	case *hagallpb.SessionState:
		v.Joined = true
		v.PIDs = map[uint32]bool{}
		v.Ents = map[uint32]string{}
		v.Comps = map[CompKey]string{}
		for _, p := range x.Participants {
			v.PIDs[p.Id] = true
		}
		for _, e := range x.Entities {
			v.Ents[e.Id] = entStr(e)
		}
		for _, c := range x.EntityComponents {
			v.Comps[CompKey{c.EntityComponentTypeId, c.EntityId}] = string(c.Data)
		}
	case *vikjapb.State:
		v.Actions = map[string]string{}
		for _, a := range x.EntityActions {
			v.Actions[fmt.Sprintf("%d/%s", a.EntityId, a.Name)] = actionStr(a)
		}
	case *odalpb.State:
		v.Assets = map[uint32]string{}
		for _, a := range x.AssetInstances {
			v.Assets[a.EntityId] = assetStr(a)
		}
	case *hagallpb.ParticipantJoinBroadcast:
		if v.PIDs[x.ParticipantId] {
			return fmt.Sprintf("join broadcast for participant %d which the client already has", x.ParticipantId)
		}
		v.PIDs[x.ParticipantId] = true
	case *hagallpb.ParticipantLeaveBroadcast:
		if !v.PIDs[x.ParticipantId] {
			return fmt.Sprintf("leave broadcast for participant %d which the client was never told about", x.ParticipantId)
		}
		delete(v.PIDs, x.ParticipantId)
	case *hagallpb.EntityAddBroadcast:
		if x.Entity == nil {
			return "entity add broadcast without entity"
		}
		if _, ok := v.Ents[x.Entity.Id]; ok {
			return fmt.Sprintf("add broadcast for entity %d which the client already has", x.Entity.Id)
		}
		v.Ents[x.Entity.Id] = entStr(x.Entity)
	case *hagallpb.EntityDeleteBroadcast:
		if _, ok := v.Ents[x.EntityId]; !ok {
			return fmt.Sprintf("delete broadcast for entity %d which the client was never told about", x.EntityId)
		}
		v.dropEntity(x.EntityId)
	case *hagallpb.EntityUpdatePoseBroadcast:
		old, ok := v.Ents[x.EntityId]
		if !ok {
			return fmt.Sprintf("pose broadcast for entity %d which the client was never told about", x.EntityId)
		}
		// replace the pose part of the canonical entity
		i := strings.LastIndex(old, ",")
		v.Ents[x.EntityId] = old[:i+1] + poseStr(x.Pose) + ")"
	case *hagallpb.EntityComponentAddBroadcast:
		c := x.EntityComponent
		if c == nil {
			return "component add broadcast without component"
		}
		k := CompKey{c.EntityComponentTypeId, c.EntityId}
		if baseValid[k.T] {
			if _, ok := v.Comps[k]; ok {
				return fmt.Sprintf("add broadcast for component (%d,%d) which the client already has", k.T, k.E)
			}
			if _, ok := v.Ents[k.E]; !ok {
				return fmt.Sprintf("add broadcast for a component of entity %d which the client was never told about", k.E)
			}
		}
		v.Comps[k] = string(c.Data)
	case *hagallpb.EntityComponentDeleteBroadcast:
		c := x.EntityComponent
		if c == nil {
			return "component delete broadcast without component"
		}
		k := CompKey{c.EntityComponentTypeId, c.EntityId}
		if baseValid[k.T] {
			if _, ok := v.Comps[k]; !ok {
				return fmt.Sprintf("delete broadcast for component (%d,%d) which the client does not have", k.T, k.E)
			}
		}
		delete(v.Comps, k)
	case *hagallpb.EntityComponentUpdateBroadcast:
		c := x.EntityComponent
		if c == nil {
			return "component update broadcast without component"
		}
		k := CompKey{c.EntityComponentTypeId, c.EntityId}
		if baseValid[k.T] {
			if _, ok := v.Comps[k]; !ok {
				return fmt.Sprintf("update broadcast for component (%d,%d) which the client does not have", k.T, k.E)
			}
		}
		v.Comps[k] = string(c.Data)
	case *hagallpb.EntityComponentListResponse:
		// handled by the runner (it knows the type asked for)
	case *vikjapb.EntityActionBroadcast:
		a := x.EntityAction
		if a == nil {
			return "action broadcast without action"
		}
		if _, ok := v.Ents[a.EntityId]; !ok {
			return fmt.Sprintf("action broadcast for entity %d which the client was never told about", a.EntityId)
		}
		v.Actions[fmt.Sprintf("%d/%s", a.EntityId, a.Name)] = actionStr(a)
	case *odalpb.AssetInstanceAddBroadcast:
		a := x.AssetInstance
		if a == nil {
			return "asset broadcast without asset"
		}
		if _, ok := v.Ents[a.EntityId]; !ok {
			return fmt.Sprintf("asset broadcast for entity %d which the client was never told about", a.EntityId)
		}
		v.Assets[a.EntityId] = assetStr(a)
	}
	return ""
}

// stateOf renders the model's state of session s the way a view is rendered,
// restricted to the component types in types (nil = all).
func modelState(s *MSession, types map[uint32]bool, mods Mods) string {
	var ps, es, cs, as, is []string
	for _, pid := range s.Members {
		ps = append(ps, fmt.Sprint(pid))
	}
	for _, e := range s.Entities {
		if e.Live {
			es = append(es, mentStr(e))
		}
	}
	for k, d := range s.Comps {
		if types == nil || types[k.T] {
			cs = append(cs, mcompStr(k, d))
		}
	}
	out := "parts=" + sortedJoin(ps) + " ents=" + sortedJoin(es) + " comps=" + sortedJoin(cs)
	if mods.Vikja {
		for _, m := range s.Actions {
			for _, a := range m {
				as = append(as, mactionStr(a))
			}
		}
		out += " actions=" + sortedJoin(as)
	}
	if mods.Odal {
		for _, a := range s.Assets {
			is = append(is, massetStr(a))
		}
		out += " assets=" + sortedJoin(is)
	}
	return out
}

func (v *View) state(types map[uint32]bool, mods Mods) string {
	var ps, es, cs, as, is []string
	for p := range v.PIDs {
		ps = append(ps, fmt.Sprint(p))
	}
	for _, e := range v.Ents {
		es = append(es, e)
	}
	for k, d := range v.Comps {
		if types == nil || types[k.T] {
			cs = append(cs, mcompStr(k, d))
		}
	}
	out := "parts=" + sortedJoin(ps) + " ents=" + sortedJoin(es) + " comps=" + sortedJoin(cs)
	if mods.Vikja {
		for _, a := range v.Actions {
			as = append(as, a)
		}
		out += " actions=" + sortedJoin(as)
	}
	if mods.Odal {
		for _, a := range v.Assets {
			is = append(is, a)
		}
		out += " assets=" + sortedJoin(is)
	}
	return out
}

func sortedU32(m map[uint32]bool) []uint32 {
	var out []uint32
	for k, ok := range m {
		if ok {
			out = append(out, k)
		}
	}
	sort.Slice(out, func(i, j int) bool { return out[i] < out[j] })
	return out
}

// DropEntity removes an entity and everything attached to it.
func (v *View) DropEntity(id uint32) { v.dropEntity(id) }

// State renders the view (component types restricted to types; nil = all).
func (v *View) State(types map[uint32]bool, mods Mods) string { return v.state(types, mods) }
