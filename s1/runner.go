package s1

import (
	"fmt"
	"sort"
	"strings"

	"github.com/aukilabs/hagall-common/messages/dagazpb"
	"github.com/aukilabs/hagall-common/messages/hagallpb"
	"github.com/aukilabs/hagall-common/messages/odalpb"
	"github.com/aukilabs/hagall-common/messages/vikjapb"
	"google.golang.org/protobuf/proto"
	"google.golang.org/protobuf/types/known/timestamppb"

	"verif/vrt"
	"verif/world"
)

// Viol is a violation found while running a history.
type Viol struct {
	Oracle string   `json:"oracle"`
	Detail string   `json:"detail"`
	Info   string   `json:"info"`
	Step   int      `json:"step"`
	Tags   []string `json:"tags"`
}

type Runner struct {
	W     *world.World
	M     *Model
	Cl    []*world.Client
	V     []Viol
	Trace []string
	step  int
	ev    Ev
	// two-session family marker: violations are also tagged C03
	TagC03 bool
	// lastRefused: the last event was a request the model refuses (error answer owed)
	lastRefused bool
	// FamTags: properties the family is about; state-level oracles (view,
	// probe, inapplicable, teardown, registry) are tagged with them too.
	FamTags   []string
	RelayTags []string
	anyCodes  []int32
}

type def struct{}

func (def) Choose(int, *vrt.ChoicePoint) int { return 0 }

func modsOf(names []string) Mods {
	var m Mods
	for _, n := range names {
		switch n {
		case "vikja":
			m.Vikja = true
		case "odal":
			m.Odal = true
		case "dagaz":
			m.Dagaz = true
		}
	}
	return m
}

// NewRunner builds a fresh world with nconn connected (unjoined) clients.
func NewRunner(cfg world.Config, nconn int) *Runner {
	w := world.New(cfg, def{})
	w.S.NoPreempt = true
	w.S.EagerLabels = []string{"websocket.handler.Handle#"}
	r := &Runner{W: w, M: NewModel(nconn, modsOf(cfg.Modules), cfg.Flags)}
	for i := 0; i < nconn; i++ {
		r.Cl = append(r.Cl, w.Connect(fmt.Sprintf("c%d", i)))
	}
	w.Run()
	for _, c := range r.Cl {
		c.Take()
	}
	r.anyCodes = []int32{BadRequest, Unauthorized, NotFound, Conflict, TooLarge, NotJoined, AlreadyJoined, Internal, TooBusy}
	return r
}

func (r *Runner) tags(oracle string) []string {
	set := map[string]bool{}
	add := func(xs ...string) {
		for _, x := range xs {
			set[x] = true
		}
	}
	switch oracle {
	case "response":
		add("C04")
	case "relay":
		add("C02")
		add(r.RelayTags...)
	case "inapplicable", "view", "probe":
		add("C01")
		add(r.FamTags...)
		if r.lastRefused {
			add("C04")
		}
	case "id":
		add("C10", "C05", "C04") // C04: a response carrying a reissued id is not the outcome the protocol defines
	case "closure":
		add("C04", "C08")
	case "teardown":
		add("C07", "C08", "C09")
		add(r.FamTags...)
	case "panic":
		add("C08", "C09", "C01", "C11")
		add(r.FamTags...)
	case "registry":
		add("C07")
		add(r.FamTags...)
	}
	e := r.ev
	switch e.K {
	case "join", "close":
		add("C06", "C07")
	case "edel":
		add("C05", "C12", "C06")
	case "pose", "tick":
		add("C11", "C05")
	case "custom":
		add("C14")
	case "tadd", "getname", "getid", "cadd", "cdel", "clist":
		add("C12")
		if oracle == "relay" {
			add("C13")
		}
	case "cupd", "sub", "unsub":
		add("C12", "C13")
	case "action":
		add("C16")
	case "asset":
		add("C16", "C05")
	case "quad", "region", "ground", "debug":
		add("C20", "C03")
	}
	if e.K == "tick" {
		add("C12", "C13")
	}
	if r.TagC03 {
		add("C03")
	}
	if len(r.M.Flags) > 0 {
		add("C17")
	}
	var out []string
	for k := range set {
		out = append(out, k)
	}
	sort.Strings(out)
	return out
}

func (r *Runner) fail(oracle, detail, info string, a ...any) {
	r.V = append(r.V, Viol{Oracle: oracle, Detail: detail, Info: fmt.Sprintf(info, a...), Step: r.step, Tags: r.tags(oracle)})
}

func tsOf(sec int64) *timestamppb.Timestamp { return &timestamppb.Timestamp{Seconds: sec} }

func tsNanos(ns int64) *timestamppb.Timestamp {
	return &timestamppb.Timestamp{Seconds: ns / 1e9, Nanos: int32(ns % 1e9)}
}

// flagClass maps a message type to the DISABLE_* flag that suppresses it.
var flagClass = map[int32]string{
	2:  "DISABLE_SESSION_STATE",
	5:  "DISABLE_PARTICIPANT_JOIN_BROADCAST",
	7:  "DISABLE_PARTICIPANT_LEAVE_BROADCAST",
	10: "DISABLE_ENTITY_ADD_BROADCAST",
	13: "DISABLE_ENTITY_DELETE_BROADCAST",
	15: "DISABLE_ENTITY_UPDATE_POSE_BROADCAST",
	17: "DISABLE_CUSTOM_MESSAGE_BROADCAST",
	26: "DISABLE_ENTITY_COMPONENT_ADD_BROADCAST",
	31: "DISABLE_ENTITY_COMPONENT_UPDATE_BROADCAST",
	29: "DISABLE_ENTITY_COMPONENT_DELETE_BROADCAST",
}

type stepCtx struct {
	exp      [][]Exp
	got      [][]Msg
	raw      [][]*world.Recv
	mayClose map[int]bool
	rid      uint32
	ts       int64
}

func (x *stepCtx) add(c int, e Exp) { x.exp[c] = append(x.exp[c], e) }

func errExp(rid uint32, codes ...int32) Exp {
	return Exp{Msg: Msg{Type: 0, RID: rid}, Codes: codes, AnyF: true}
}

func uniq(codes []int32) []int32 {
	seen := map[int32]bool{}
	var out []int32
	for _, c := range codes {
		if !seen[c] {
			seen[c] = true
			out = append(out, c)
		}
	}
	return out
}

// findResp returns the first message of type t carrying rid among got.
func findResp(got []Msg, raw []*world.Recv, t int32, rid uint32) (*world.Recv, bool) {
	for i, g := range got {
		if g.Type == t && g.RID == rid {
			return raw[i], true
		}
	}
	return nil, false
}

// Do executes one event on the real server and checks it against the model.
func (r *Runner) Do(ev Ev) {
	r.step++
	r.ev = ev
	m := r.M
	n := len(m.Conns)
	x := &stepCtx{exp: make([][]Exp, n), got: make([][]Msg, n), raw: make([][]*world.Recv, n), mayClose: map[int]bool{}}
	var c *MConn
	var cl *world.Client
	if ev.K != "tick" {
		c = m.Conns[ev.C]
		cl = r.Cl[ev.C]
		c.Used = true
		x.rid = cl.NextReqID()
	}
	tsp := r.W.NextTS()
	x.ts = tsp.Seconds
	m.ValSeq++
	val := m.ValSeq

	// ---- build and send the wire message ----
	var wire proto.Message
	var eid, tid uint32
	switch ev.K {
	case "tick":
	case "close":
		cl.Close()
	case "join":
		target := ""
		switch {
		case ev.X == -1:
		case ev.X == -2:
			target = "srvx3f"
		case ev.X == -3:
			// another server's id with the numeric part of a live session of this one
			// (the requester's own if it has one): unknown here, to be refused
			target = "othersrvx1"
			var pick *MSession
			if c.Sess != nil {
				pick = c.Sess
			} else if ls := liveSessions(m); len(ls) > 0 {
				pick = ls[0]
			}
			if pick != nil {
				if i := strings.LastIndex(pick.ID, "x"); i >= 0 {
					target = "othersrvx" + pick.ID[i+1:]
				}
			}
		default:
			target = m.Sessions[ev.X].ID
		}
		wire = &hagallpb.ParticipantJoinRequest{Type: hagallpb.MsgType_MSG_TYPE_PARTICIPANT_JOIN_REQUEST, Timestamp: tsp, RequestId: x.rid, SessionId: target}
	case "eadd":
		req := &hagallpb.EntityAddRequest{Type: hagallpb.MsgType_MSG_TYPE_ENTITY_ADD_REQUEST, Timestamp: tsp, RequestId: x.rid, Persist: ev.X == 1, Flag: hagallpb.EntityFlag(ev.Y)}
		if ev.Z == 0 {
			req.Pose = &hagallpb.Pose{Px: float32(val)}
		}
		wire = req
	case "edel":
		eid = m.EntityID(c, ev.X, ev.Raw)
		wire = &hagallpb.EntityDeleteRequest{Type: hagallpb.MsgType_MSG_TYPE_ENTITY_DELETE_REQUEST, Timestamp: tsp, RequestId: x.rid, EntityId: eid}
	case "pose":
		eid = m.EntityID(c, ev.X, ev.Raw)
		if ev.Y == 1 {
			// the pose the entity has (or, an update pending, will have): the value is repeated
			val = 0
			if c.Sess != nil {
				for _, e := range c.Sess.Entities {
					if e.ID == eid && e.Live && e.Pose.Set {
						val = int(e.Pose.PX)
					}
				}
			}
			if p := c.Pending[fmt.Sprintf("p:%d", eid)]; p != nil {
				val = int(p.Pose.PX)
			}
		}
		wire = &hagallpb.EntityUpdatePose{Type: hagallpb.MsgType_MSG_TYPE_ENTITY_UPDATE_POSE, Timestamp: tsp, EntityId: eid, Pose: &hagallpb.Pose{Px: float32(val)}}
	case "custom":
		wire = r.buildCustom(c, ev, tsp, val)
	case "tadd":
		wire = &hagallpb.EntityComponentTypeAddRequest{Type: hagallpb.MsgType_MSG_TYPE_ENTITY_COMPONENT_TYPE_ADD_REQUEST, Timestamp: tsp, RequestId: x.rid, EntityComponentTypeName: TypeNames[ev.X]}
	case "getname":
		tid = m.TypeID(c, ev.X, ev.Raw)
		wire = &hagallpb.EntityComponentTypeGetNameRequest{Type: hagallpb.MsgType_MSG_TYPE_ENTITY_COMPONENT_TYPE_GET_NAME_REQUEST, Timestamp: tsp, RequestId: x.rid, EntityComponentTypeId: tid}
	case "getid":
		wire = &hagallpb.EntityComponentTypeGetIdRequest{Type: hagallpb.MsgType_MSG_TYPE_ENTITY_COMPONENT_TYPE_GET_ID_REQUEST, Timestamp: tsp, RequestId: x.rid, EntityComponentTypeName: TypeNames[ev.X]}
	case "cadd":
		tid, eid = m.TypeID(c, ev.X, ev.Raw), m.EntityID(c, ev.Y, ev.Raw)
		wire = &hagallpb.EntityComponentAddRequest{Type: hagallpb.MsgType_MSG_TYPE_ENTITY_COMPONENT_ADD_REQUEST, Timestamp: tsp, RequestId: x.rid, EntityComponentTypeId: tid, EntityId: eid, Data: []byte(fmt.Sprintf("d%d", val))}
	case "cdel":
		tid, eid = m.TypeID(c, ev.X, ev.Raw), m.EntityID(c, ev.Y, ev.Raw)
		wire = &hagallpb.EntityComponentDeleteRequest{Type: hagallpb.MsgType_MSG_TYPE_ENTITY_COMPONENT_DELETE_REQUEST, Timestamp: tsp, RequestId: x.rid, EntityComponentTypeId: tid, EntityId: eid}
	case "cupd":
		tid, eid = m.TypeID(c, ev.X, ev.Raw), m.EntityID(c, ev.Y, ev.Raw)
		wire = &hagallpb.EntityComponentUpdate{Type: hagallpb.MsgType_MSG_TYPE_ENTITY_COMPONENT_UPDATE, Timestamp: tsp, EntityComponentTypeId: tid, EntityId: eid, Data: []byte(fmt.Sprintf("d%d", val))}
	case "clist":
		tid = m.TypeID(c, ev.X, ev.Raw)
		wire = &hagallpb.EntityComponentListRequest{Type: hagallpb.MsgType_MSG_TYPE_ENTITY_COMPONENT_LIST_REQUEST, Timestamp: tsp, RequestId: x.rid, EntityComponentTypeId: tid}
	case "sub":
		tid = m.TypeID(c, ev.X, ev.Raw)
		wire = &hagallpb.EntityComponentTypeSubscribeRequest{Type: hagallpb.MsgType_MSG_TYPE_ENTITY_COMPONENT_TYPE_SUBSCRIBE_REQUEST, Timestamp: tsp, RequestId: x.rid, EntityComponentTypeId: tid}
	case "unsub":
		tid = m.TypeID(c, ev.X, ev.Raw)
		wire = &hagallpb.EntityComponentTypeUnsubscribeRequest{Type: hagallpb.MsgType_MSG_TYPE_ENTITY_COMPONENT_TYPE_UNSUBSCRIBE_REQUEST, Timestamp: tsp, RequestId: x.rid, EntityComponentTypeId: tid}
	case "action":
		eid = m.EntityID(c, ev.X, ev.Raw)
		req := &vikjapb.EntityActionRequest{Type: vikjapb.MsgType_MSG_TYPE_VIKJA_ENTITY_ACTION_REQUEST, Timestamp: tsp, RequestId: x.rid}
		if ev.Z != 5 {
			ea := &vikjapb.EntityAction{EntityId: eid, Name: ActionNames[ev.Y], Data: []byte(fmt.Sprintf("a%d", val))}
			if t := ActionTS[ev.Z]; t >= 0 {
				ea.Timestamp = tsNanos(t)
			}
			req.EntityAction = ea
		}
		wire = req
	case "asset":
		eid = m.EntityID(c, ev.X, ev.Raw)
		wire = &odalpb.AssetInstanceAddRequest{Type: odalpb.MsgType_MSG_TYPE_ODAL_ASSET_INSTANCE_ADD_REQUEST, Timestamp: tsp, RequestId: x.rid, EntityId: eid, AssetId: AssetNames[ev.Y]}
	case "ping":
		wire = &hagallpb.Request{Type: hagallpb.MsgType_MSG_TYPE_PING_REQUEST, Timestamp: tsp, RequestId: x.rid}
	case "quad":
		cx, cz := quadPos(ev.X)
		wire = &dagazpb.DagazQuadSample{Type: dagazpb.MsgType_MSG_TYPE_DAGAZ_QUAD_SAMPLE, Timestamp: tsp, Samples: []*dagazpb.Quad{{Center: &dagazpb.Point{X: cx, Y: 0, Z: cz}, Extents: &dagazpb.Point{X: 0.5, Y: 0, Z: 0.5}}}}
	case "ground":
		// a vertical ray through the centre of sample X (or of an empty spot)
		cx, cz := quadPos(ev.X)
		wire = &dagazpb.DagazGetGroundPlaneRequest{Type: dagazpb.MsgType_MSG_TYPE_DAGAZ_GET_GROUND_PLANE_REQUEST, Timestamp: tsp, RequestId: x.rid, Ray: &dagazpb.Ray{From: &dagazpb.Point{X: cx, Y: 1, Z: cz}, To: &dagazpb.Point{X: cx, Y: -1, Z: cz}}}
	case "debug":
		wire = &dagazpb.DagazGetDebugInfoRequest{Type: dagazpb.MsgType_MSG_TYPE_DAGAZ_GET_DEBUG_INFO_REQUEST, Timestamp: tsp, RequestId: x.rid}
	case "region":
		wire = &dagazpb.DagazGetRegionRequest{Type: dagazpb.MsgType_MSG_TYPE_DAGAZ_GET_REGION_REQUEST, Timestamp: tsp, RequestId: x.rid, Min: &dagazpb.Point{X: -1000, Z: -1000}, Max: &dagazpb.Point{X: 1000, Z: 1000}}
	default:
		panic("unknown event kind " + ev.K)
	}
	if wire != nil {
		cl.SendMsg(wire)
	}
	if ev.K == "tick" {
		r.W.Tick(r.W.Cfg.FrameDuration)
	} else {
		r.W.Run()
	}
	for i, k := range r.Cl {
		rs := k.Take()
		x.raw[i] = rs
		for _, rr := range rs {
			x.got[i] = append(x.got[i], Canon(rr))
		}
	}

	// ---- model transition and expectations ----
	sessionScoped := map[string]bool{"eadd": true, "edel": true, "custom": true, "tadd": true, "getname": true, "getid": true, "cadd": true, "cdel": true, "clist": true, "sub": true, "unsub": true}
	switch {
	case ev.K == "tick":
		r.doTick(x)
	case ev.K == "close":
		if c.Sess != nil {
			r.depart(c, x)
		}
		c.Open = false
	case ev.K == "ping":
		x.add(c.Idx, Exp{Msg: Msg{Type: 39, RID: x.rid}})
	case ev.K == "pose":
		c.Pending[fmt.Sprintf("p:%d", eid)] = &pendingUpd{Key: "p", E: eid, Pose: Pose{true, float32(val)}, HasP: true, TS: x.ts, Seq: r.step}
	case ev.K == "cupd":
		c.Pending[fmt.Sprintf("c:%d:%d", tid, eid)] = &pendingUpd{Key: "c", T: tid, E: eid, Data: fmt.Sprintf("d%d", val), TS: x.ts, IsCmp: true, Seq: r.step}
	case ev.K == "join":
		r.doJoin(c, wire.(*hagallpb.ParticipantJoinRequest).SessionId, x)
	case (ev.K == "action" || ev.K == "asset" || ev.K == "quad" || ev.K == "region" || ev.K == "ground" || ev.K == "debug") && c.Sess == nil:
		// module request from a connection that is in no session: dropped
	case sessionScoped[ev.K] && c.Sess == nil:
		// never executed: an error answer, silence or a disconnect are all fine
		x.add(c.Idx, Exp{Msg: Msg{Type: 0, RID: x.rid}, Codes: r.anyCodes, AnyF: true, Optional: true})
		x.mayClose[c.Idx] = true
	default:
		r.doSession(c, ev, x, eid, tid, val)
	}

	// a refused request (the requester is owed an error answer) must leave the
	// state unchanged: what the probe finds afterwards is evidence for C04 too
	r.lastRefused = false
	if ev.C >= 0 && ev.C < len(x.exp) && x.rid != 0 {
		for _, e := range x.exp[ev.C] {
			if len(e.Codes) > 0 && e.Msg.RID == x.rid && e.Msg.Type == 0 {
				r.lastRefused = true
			}
		}
	}

	// ---- compare ----
	for i := range m.Conns {
		exp := x.exp[i]
		if len(m.Flags) > 0 {
			var f []Exp
			for _, e := range exp {
				if fl, ok := flagClass[e.Type]; ok && m.Flags[fl] {
					continue
				}
				f = append(f, e)
			}
			exp = f
		}
		if d := matchAll(exp, x.got[i]); d != "" {
			oracle := "relay"
			if c != nil && i == c.Idx {
				oracle = "response"
			}
			r.fail(oracle, ev.K+":"+mismatchClass(exp, x.got[i]), "step %d %v: connection c%d: %s", r.step, ev, i, d)
		}
	}
	// closure
	for i, mc := range m.Conns {
		closed := r.Cl[i].Pipe.ServerClosed()
		if mc.Open && closed {
			if !x.mayClose[i] {
				r.fail("closure", ev.K+":server-closed-connection", "step %d %v: the server ended connection c%d (%s)", r.step, ev, i, r.Cl[i].DisconnectErr)
			}
			if mc.Sess != nil {
				// follow the implementation so that exploration can go on
				silent := &stepCtx{exp: make([][]Exp, n), mayClose: map[int]bool{}}
				r.depart(mc, silent)
			}
			mc.Open = false
		}
	}
	// views
	if len(m.Flags) == 0 {
		r.applyViews(x)
		r.checkViews()
	}
	if len(r.Trace) < 64 {
		var sb strings.Builder
		fmt.Fprintf(&sb, "%v ->", ev)
		for i := range x.got {
			if len(x.got[i]) > 0 {
				fmt.Fprintf(&sb, " c%d:%v", i, x.got[i])
			}
		}
		r.Trace = append(r.Trace, sb.String())
	}
}

func mismatchClass(exp []Exp, got []Msg) string {
	used := make([]bool, len(exp))
	var extra, missing []string
	for _, g := range got {
		found := false
		for pass := 0; pass < 2 && !found; pass++ {
			for i, e := range exp {
				if used[i] || (pass == 0 && e.Optional) {
					continue
				}
				if e.matches(g) {
					used[i], found = true, true
					break
				}
			}
		}
		if !found {
			n := typeName(g.Type)
			if g.Type == 0 {
				n += fmt.Sprintf("(%d)", g.Code)
			}
			extra = append(extra, n)
		}
	}
	for i, e := range exp {
		if !used[i] && !e.Optional {
			missing = append(missing, typeName(e.Type))
		}
	}
	sort.Strings(extra)
	sort.Strings(missing)
	return "unexpected[" + strings.Join(extra, ",") + "]missing[" + strings.Join(missing, ",") + "]"
}

// Body builds the body of an explicit custom message: length n, pattern b.
func Body(n, b int) []byte {
	body := make([]byte, n)
	for i := range body {
		switch b {
		case 1:
			body[i] = 0xff
		case 2:
			body[i] = byte(i)
		case 3:
			body[i] = []byte{0x08, 0x10, 0x12, 0x04, 0x1a, 0x02}[i%6] // looks like protobuf tags
		}
	}
	return body
}

func (r *Runner) buildCustom(c *MConn, ev Ev, tsp *timestamppb.Timestamp, val int) proto.Message {
	if ev.Ex {
		return &hagallpb.CustomMessage{Type: hagallpb.MsgType_MSG_TYPE_CUSTOM_MESSAGE, Timestamp: tsp, ParticipantIds: ev.P, Body: Body(ev.N, ev.B)}
	}
	var body []byte
	switch ev.Y {
	case 0:
		body = []byte(fmt.Sprintf("b%d", val))
	case 1:
		body = make([]byte, 10240)
		body[0] = byte(val)
	case 2:
		body = make([]byte, 10241)
	}
	return &hagallpb.CustomMessage{Type: hagallpb.MsgType_MSG_TYPE_CUSTOM_MESSAGE, Timestamp: tsp, ParticipantIds: r.customRecipients(c, ev.X), Body: body}
}

func (r *Runner) customRecipients(c *MConn, code int) []uint32 {
	if code == 0 || c.Sess == nil {
		if code == 0 {
			return nil
		}
		return []uint32{1}
	}
	var others []uint32
	for _, o := range c.Sess.others(c.Idx) {
		others = append(others, c.Sess.Members[o])
	}
	switch code {
	case 1:
		if len(others) > 0 {
			return []uint32{others[0]}
		}
		return []uint32{NeverID}
	case 2:
		ids := []uint32{c.PID, NeverID}
		if len(others) > 0 {
			ids = append(ids, others[0], others[0])
		}
		if len(others) > 1 {
			ids = append(ids, others[1], others[0])
		}
		return ids
	case 3:
		// an id that is a participant of ANOTHER session (if any), else unknown
		for _, s := range r.M.Sessions {
			if s.Live && s != c.Sess {
				for _, pid := range s.Members {
					if _, mine := pidIn(c.Sess, pid); !mine {
						return []uint32{pid}
					}
				}
			}
		}
		return []uint32{NeverID}
	}
	return nil
}

// quadPos places sample k on a lattice of disjoint, non-adjacent footprints
// (no two samples ever merge), in all four quadrants.
func quadPos(k int) (float32, float32) {
	pos := [][2]float32{{1, 1}, {5, 1}, {-3, 1}, {1, -3}, {9, 5}}
	p := pos[k%len(pos)]
	return p[0], p[1]
}

func pidIn(s *MSession, pid uint32) (int, bool) {
	for c, p := range s.Members {
		if p == pid {
			return c, true
		}
	}
	return 0, false
}

// depart removes c from its session per the departure rule and adds the
// expected relays for the remaining members.
func (r *Runner) depart(c *MConn, x *stepCtx) {
	s := c.Sess
	pid := c.PID
	others := s.others(c.Idx)
	for _, e := range s.Entities {
		if !e.Live || e.Owner != pid || e.Persist {
			continue
		}
		r.removeEntity(s, e)
		for _, o := range others {
			x.add(o, Exp{Msg: Msg{Type: 13, F: fmt.Sprintf("eid=%d", e.ID)}, AnyOrigin: true})
		}
	}
	for t := range s.Subs {
		delete(s.Subs[t], c.Idx)
	}
	delete(s.Members, c.Idx)
	for _, o := range others {
		x.add(o, Exp{Msg: Msg{Type: 7, F: fmt.Sprintf("pid=%d", pid)}, AnyOrigin: true})
	}
	if len(s.Members) == 0 {
		s.Live = false
	}
	c.Sess, c.PID, c.View, c.BaseValid = nil, 0, nil, nil
}

func (r *Runner) removeEntity(s *MSession, e *MEntity) {
	e.Live = false
	for k := range s.Comps {
		if k.E == e.ID {
			delete(s.Comps, k)
		}
	}
	delete(s.Actions, e.ID)
	delete(s.Assets, e.ID)
}

func (r *Runner) sessionStateF(s *MSession) string {
	var ps, es, cs []string
	for _, pid := range s.Members {
		ps = append(ps, fmt.Sprint(pid))
	}
	for _, e := range s.Entities {
		if e.Live {
			es = append(es, mentStr(e))
		}
	}
	for k, d := range s.Comps {
		cs = append(cs, mcompStr(k, d))
	}
	return "parts=" + sortedJoin(ps) + " ents=" + sortedJoin(es) + " comps=" + sortedJoin(cs)
}

func vikjaStateF(s *MSession) string {
	var as []string
	for _, m := range s.Actions {
		for _, a := range m {
			as = append(as, mactionStr(a))
		}
	}
	return "actions=" + sortedJoin(as)
}

func odalStateF(s *MSession) string {
	var as []string
	for _, a := range s.Assets {
		as = append(as, massetStr(a))
	}
	return "assets=" + sortedJoin(as)
}

func (r *Runner) doJoin(c *MConn, target string, x *stepCtx) {
	m := r.M
	// A refused join of a connection that is in a session: the modules may
	// hand their (unchanged) state again; no sentence forbids or requires it.
	again := func() {
		if c.Sess == nil {
			return
		}
		if m.Mods.Vikja {
			x.add(c.Idx, Exp{Msg: Msg{Type: 100, F: vikjaStateF(c.Sess)}, Optional: true})
		}
		if m.Mods.Odal {
			x.add(c.Idx, Exp{Msg: Msg{Type: 200, F: odalStateF(c.Sess)}, Optional: true})
		}
	}
	if c.Sess != nil && target == c.Sess.ID {
		x.add(c.Idx, errExp(x.rid, AlreadyJoined))
		again()
		return
	}
	var tgt *MSession
	if target != "" {
		tgt = m.liveSessionByID(target)
		if tgt == nil {
			// refused: a refused request changes nothing
			x.add(c.Idx, errExp(x.rid, NotFound))
			again()
			return
		}
	}
	if c.Sess != nil {
		r.depart(c, x)
	}
	resp, ok := findResp(x.got[c.Idx], x.raw[c.Idx], 4, x.rid)
	if !ok {
		r.fail("response", "join:no-join-response", "step %d: join of %q was not answered with a JOIN_RESPONSE: got %v", r.step, target, x.got[c.Idx])
		x.add(c.Idx, Exp{Msg: Msg{Type: 4, RID: x.rid}, AnyF: true})
		return
	}
	jr := resp.Msg.(*hagallpb.ParticipantJoinResponse)
	if tgt == nil {
		if m.liveSessionByID(jr.SessionId) != nil {
			r.fail("id", "session-id-collides-with-live-session", "new session was given id %s which a live session already has", jr.SessionId)
		}
		for _, s := range m.Sessions {
			if s.UUID == jr.SessionUuid {
				r.fail("id", "session-uuid-reused", "new session was given uuid %s used before", jr.SessionUuid)
			}
		}
		tgt = &MSession{Tok: len(m.Sessions), ID: jr.SessionId, UUID: jr.SessionUuid, Live: true, Members: map[int]uint32{}, PartSeen: map[uint32]bool{}, EntSeen: map[uint32]bool{}, Comps: map[CompKey]string{}, Subs: map[uint32]map[int]bool{}, Actions: map[uint32]map[string]MAction{}, Assets: map[uint32]MAsset{}, AssetIDs: map[uint32]bool{}}
		m.Sessions = append(m.Sessions, tgt)
	}
	if tgt.PartSeen[jr.ParticipantId] {
		r.fail("id", "participant-id-reissued", "participant id %d was issued twice in session %s", jr.ParticipantId, tgt.ID)
	}
	if jr.ParticipantId == 0 {
		r.fail("id", "participant-id-zero", "participant id 0 issued")
	}
	tgt.PartSeen[jr.ParticipantId] = true
	others := tgt.memberConns()
	tgt.Members[c.Idx] = jr.ParticipantId
	tgt.Joins++
	c.Sess, c.PID = tgt, jr.ParticipantId
	c.View = NewView()
	c.BaseValid = map[uint32]bool{}
	for _, t := range tgt.Types {
		c.BaseValid[t.ID] = true
	}
	x.add(c.Idx, Exp{Msg: Msg{Type: 4, RID: x.rid, F: fmt.Sprintf("sid=%s uuid=%s pid=%d", tgt.ID, tgt.UUID, jr.ParticipantId)}})
	x.add(c.Idx, Exp{Msg: Msg{Type: 2, F: r.sessionStateF(tgt)}})
	if m.Mods.Vikja {
		x.add(c.Idx, Exp{Msg: Msg{Type: 100, F: vikjaStateF(tgt)}})
	}
	if m.Mods.Odal {
		x.add(c.Idx, Exp{Msg: Msg{Type: 200, F: odalStateF(tgt)}})
	}
	for _, o := range others {
		x.add(o, Exp{Msg: Msg{Type: 5, Origin: x.ts, F: fmt.Sprintf("pid=%d", jr.ParticipantId)}})
	}
}

func (r *Runner) doTick(x *stepCtx) {
	m := r.M
	for _, s := range m.Sessions {
		if !s.Live {
			continue
		}
		for _, ci := range s.memberConns() {
			c := m.Conns[ci]
			var ps []*pendingUpd
			for _, p := range c.Pending {
				ps = append(ps, p)
			}
			sort.Slice(ps, func(i, j int) bool { return ps[i].Seq < ps[j].Seq })
			c.Pending = map[string]*pendingUpd{}
			for _, p := range ps {
				if !p.IsCmp {
					e := s.liveEnt(p.E)
					if e == nil || e.Owner != c.PID || !p.HasP {
						continue
					}
					e.Pose = p.Pose
					for _, o := range s.others(ci) {
						x.add(o, Exp{Msg: Msg{Type: 15, Origin: p.TS, F: fmt.Sprintf("eid=%d pose=%s", e.ID, mposeStr(e.Pose))}})
					}
					if c.View != nil {
						c.View.Ents[e.ID] = mentStr(e)
					}
					continue
				}
				k := CompKey{p.T, p.E}
				if p.T == 0 || p.E == 0 || s.liveEnt(p.E) == nil {
					continue
				}
				if _, ok := s.Comps[k]; !ok {
					continue
				}
				s.Comps[k] = p.Data
				for _, o := range s.others(ci) {
					if s.Subs[p.T][o] {
						x.add(o, Exp{Msg: Msg{Type: 31, Origin: p.TS, F: "comp=" + mcompStr(k, p.Data)}})
					} else if oc := m.Conns[o]; oc.BaseValid != nil {
						oc.BaseValid[p.T] = false
					}
				}
				if c.View != nil {
					c.View.Comps[k] = p.Data
				}
			}
		}
	}
}

// invalidate marks the copies of type t stale for members that are neither
// the sender nor subscribed.
func (r *Runner) invalidate(s *MSession, sender int, t uint32) {
	for _, o := range s.others(sender) {
		if !s.Subs[t][o] {
			if oc := r.M.Conns[o]; oc.BaseValid != nil {
				oc.BaseValid[t] = false
			}
		}
	}
}

func (r *Runner) doSession(c *MConn, ev Ev, x *stepCtx, eid, tid uint32, val int) {
	m := r.M
	s := c.Sess
	ci := c.Idx
	others := s.others(ci)
	refuse := func(codes ...int32) { x.add(ci, errExp(x.rid, uniq(codes)...)) }
	switch ev.K {
	case "eadd":
		resp, ok := findResp(x.got[ci], x.raw[ci], 9, x.rid)
		if !ok {
			r.fail("response", "eadd:no-response", "entity add not answered: got %v", x.got[ci])
			x.add(ci, Exp{Msg: Msg{Type: 9, RID: x.rid}, AnyF: true})
			return
		}
		id := resp.Msg.(*hagallpb.EntityAddResponse).EntityId
		if s.EntSeen[id] {
			r.fail("id", "entity-id-reissued", "entity id %d was issued twice in session %s", id, s.ID)
		}
		if id == 0 {
			r.fail("id", "entity-id-zero", "entity id 0 issued")
		}
		s.EntSeen[id] = true
		e := &MEntity{Ord: len(s.Entities), ID: id, Owner: c.PID, OwnerC: ci, Persist: ev.X == 1, Flag: int32(ev.Y), Live: true}
		if ev.Z == 0 {
			e.Pose = Pose{true, float32(val)}
		}
		s.Entities = append(s.Entities, e)
		x.add(ci, Exp{Msg: Msg{Type: 9, RID: x.rid, F: fmt.Sprintf("eid=%d", id)}})
		for _, o := range others {
			x.add(o, Exp{Msg: Msg{Type: 10, Origin: x.ts, F: "ent=" + mentStr(e)}})
		}
		c.View.Ents[id] = mentStr(e)
	case "edel":
		e := s.liveEnt(eid)
		switch {
		case e == nil:
			refuse(NotFound)
		case e.Owner != c.PID:
			refuse(Unauthorized)
		default:
			r.removeEntity(s, e)
			x.add(ci, Exp{Msg: Msg{Type: 12, RID: x.rid}})
			for _, o := range others {
				x.add(o, Exp{Msg: Msg{Type: 13, Origin: x.ts, F: fmt.Sprintf("eid=%d", e.ID)}})
			}
			c.View.dropEntity(e.ID)
		}
	case "custom":
		var body []byte
		cm := r.buildCustom(c, ev, tsOf(x.ts), val).(*hagallpb.CustomMessage)
		body = cm.Body
		if len(body) > 10240 {
			x.add(ci, errExp(0, TooLarge))
			return
		}
		rec := map[int]bool{}
		if len(cm.ParticipantIds) == 0 {
			for _, o := range others {
				rec[o] = true
			}
		} else {
			for _, pid := range cm.ParticipantIds {
				if o, ok := pidIn(s, pid); ok && o != ci {
					rec[o] = true
				}
			}
		}
		for o := range rec {
			x.add(o, Exp{Msg: Msg{Type: 17, Origin: x.ts, F: fmt.Sprintf("from=%d body=%s", c.PID, bodyStr(body))}})
		}
	case "tadd":
		name := TypeNames[ev.X]
		if name == "" {
			refuse(BadRequest)
			return
		}
		resp, ok := findResp(x.got[ci], x.raw[ci], 19, x.rid)
		if !ok {
			r.fail("response", "tadd:no-response", "type add not answered: got %v", x.got[ci])
			x.add(ci, Exp{Msg: Msg{Type: 19, RID: x.rid}, AnyF: true})
			return
		}
		id := resp.Msg.(*hagallpb.EntityComponentTypeAddResponse).EntityComponentTypeId
		if t := s.typeByName(name); t != nil {
			x.add(ci, Exp{Msg: Msg{Type: 19, RID: x.rid, F: fmt.Sprintf("tid=%d", t.ID)}})
			return
		}
		if s.typeByID(id) != nil || id == 0 {
			r.fail("id", "type-id-not-one-to-one", "type name %q was given id %d which already names another type (or is zero)", name, id)
		}
		s.Types = append(s.Types, &MType{Ord: len(s.Types), Name: name, ID: id})
		for _, mc := range s.memberConns() {
			if bv := m.Conns[mc].BaseValid; bv != nil {
				bv[id] = true // a brand-new type has no components: every copy is current
			}
		}
		x.add(ci, Exp{Msg: Msg{Type: 19, RID: x.rid, F: fmt.Sprintf("tid=%d", id)}})
	case "getname":
		switch t := s.typeByID(tid); {
		case tid == 0:
			refuse(BadRequest)
		case t == nil:
			refuse(NotFound)
		default:
			x.add(ci, Exp{Msg: Msg{Type: 21, RID: x.rid, F: fmt.Sprintf("name=%q", t.Name)}})
		}
	case "getid":
		name := TypeNames[ev.X]
		switch t := s.typeByName(name); {
		case name == "":
			refuse(BadRequest)
		case t == nil:
			refuse(NotFound)
		default:
			x.add(ci, Exp{Msg: Msg{Type: 23, RID: x.rid, F: fmt.Sprintf("tid=%d", t.ID)}})
		}
	case "cadd":
		var codes []int32
		if tid == 0 || eid == 0 {
			codes = append(codes, BadRequest)
		}
		if s.liveEnt(eid) == nil || s.typeByID(tid) == nil {
			codes = append(codes, NotFound)
		}
		k := CompKey{tid, eid}
		if _, ok := s.Comps[k]; ok {
			codes = append(codes, Conflict)
		}
		if len(codes) > 0 {
			refuse(codes...)
			return
		}
		data := fmt.Sprintf("d%d", val)
		s.Comps[k] = data
		x.add(ci, Exp{Msg: Msg{Type: 25, RID: x.rid}})
		if s.hasSubscribers(tid) {
			for _, o := range others {
				x.add(o, Exp{Msg: Msg{Type: 26, Origin: x.ts, F: "comp=" + mcompStr(k, data)}, Optional: !s.Subs[tid][o]})
			}
		}
		r.invalidate(s, ci, tid)
		c.View.Comps[k] = data
	case "cdel":
		var codes []int32
		if tid == 0 || eid == 0 {
			codes = append(codes, BadRequest)
		}
		k := CompKey{tid, eid}
		if _, ok := s.Comps[k]; !ok || s.liveEnt(eid) == nil {
			codes = append(codes, NotFound)
		}
		if len(codes) > 0 {
			refuse(codes...)
			return
		}
		delete(s.Comps, k)
		x.add(ci, Exp{Msg: Msg{Type: 28, RID: x.rid}})
		if s.hasSubscribers(tid) {
			for _, o := range others {
				x.add(o, Exp{Msg: Msg{Type: 29, Origin: x.ts, F: fmt.Sprintf("key=(%d,%d)", tid, eid)}, Optional: !s.Subs[tid][o]})
			}
		}
		r.invalidate(s, ci, tid)
		delete(c.View.Comps, k)
	case "clist":
		if tid == 0 {
			refuse(BadRequest)
			return
		}
		var cs []string
		for k, d := range s.Comps {
			if k.T == tid {
				cs = append(cs, mcompStr(k, d))
			}
		}
		x.add(ci, Exp{Msg: Msg{Type: 33, RID: x.rid, F: "comps=" + sortedJoin(cs)}})
		// the client replaces its copy of that type with the list
		if resp, ok := findResp(x.got[ci], x.raw[ci], 33, x.rid); ok {
			for k := range c.View.Comps {
				if k.T == tid {
					delete(c.View.Comps, k)
				}
			}
			for _, ec := range resp.Msg.(*hagallpb.EntityComponentListResponse).EntityComponents {
				c.View.Comps[CompKey{ec.EntityComponentTypeId, ec.EntityId}] = string(ec.Data)
			}
			c.BaseValid[tid] = true
		}
	case "sub":
		switch {
		case tid == 0:
			refuse(BadRequest)
		case s.typeByID(tid) == nil:
			refuse(NotFound)
		default:
			if s.Subs[tid] == nil {
				s.Subs[tid] = map[int]bool{}
			}
			s.Subs[tid][ci] = true
			x.add(ci, Exp{Msg: Msg{Type: 35, RID: x.rid}})
		}
	case "unsub":
		if tid == 0 {
			refuse(BadRequest)
			return
		}
		delete(s.Subs[tid], ci)
		x.add(ci, Exp{Msg: Msg{Type: 37, RID: x.rid}})
	case "action":
		if !m.Mods.Vikja {
			return // the server does not implement the request: silence
		}
		name := ActionNames[ev.Y]
		var codes []int32
		tsv := int64(-1)
		if ev.Z != 5 {
			tsv = ActionTS[ev.Z]
		}
		if ev.Z == 5 || name == "" || tsv < 0 {
			codes = append(codes, BadRequest)
		}
		if ev.Z != 5 && s.liveEnt(eid) == nil {
			codes = append(codes, BadRequest, NotFound)
		}
		if len(codes) == 0 {
			if old, ok := s.Actions[eid][name]; ok && tsv < old.TS {
				codes = append(codes, BadRequest, Conflict)
			}
		}
		if len(codes) > 0 {
			refuse(codes...)
			return
		}
		a := MAction{Ent: eid, Name: name, TS: tsv, Data: fmt.Sprintf("a%d", val)}
		if s.Actions[eid] == nil {
			s.Actions[eid] = map[string]MAction{}
		}
		s.Actions[eid][name] = a
		x.add(ci, Exp{Msg: Msg{Type: 102, RID: x.rid}})
		for _, o := range others {
			x.add(o, Exp{Msg: Msg{Type: 103, Origin: x.ts, F: "action=" + mactionStr(a)}})
		}
		c.View.Actions[fmt.Sprintf("%d/%s", eid, name)] = mactionStr(a)
	case "quad":
		if m.Mods.Dagaz {
			cx, cz := quadPos(ev.X)
			q := fmt.Sprintf("(%v,%v,%v|%v,%v,%v)", cx, float32(0), cz, float32(0.5), float32(0), float32(0.5))
			dup := false
			for _, o := range s.Quads {
				if o == q {
					dup = true // an identical sample merges into the stored plane
				}
			}
			if !dup {
				s.Quads = append(s.Quads, q)
			}
		}
	case "region":
		if m.Mods.Dagaz {
			x.add(ci, Exp{Msg: Msg{Type: 304, RID: x.rid, F: "quads=" + sortedJoin(append([]string{}, s.Quads...))}})
		}
	case "ground":
		if m.Mods.Dagaz {
			cx, cz := quadPos(ev.X)
			want := fmt.Sprintf("(%v,%v,%v|%v,%v,%v)", cx, float32(0), cz, float32(0.5), float32(0), float32(0.5))
			hit := "miss"
			for _, q := range s.Quads {
				if q == want {
					hit = want
				}
			}
			x.add(ci, Exp{Msg: Msg{Type: 302, RID: x.rid, F: "ground=" + hit}})
		}
	case "debug":
		if m.Mods.Dagaz {
			x.add(ci, Exp{Msg: Msg{Type: 306, RID: x.rid, F: fmt.Sprintf("planes=%d", len(s.Quads))}})
		}
	case "asset":
		if !m.Mods.Odal {
			return
		}
		asset := AssetNames[ev.Y]
		var codes []int32
		e := s.liveEnt(eid)
		if asset == "" {
			codes = append(codes, BadRequest)
		}
		if e == nil {
			codes = append(codes, NotFound)
		} else if e.Owner != c.PID {
			codes = append(codes, Unauthorized)
		}
		if len(codes) > 0 {
			refuse(codes...)
			return
		}
		resp, ok := findResp(x.got[ci], x.raw[ci], 202, x.rid)
		if !ok {
			r.fail("response", "asset:no-response", "asset add not answered: got %v", x.got[ci])
			x.add(ci, Exp{Msg: Msg{Type: 202, RID: x.rid}, AnyF: true})
			return
		}
		iid := resp.Msg.(*odalpb.AssetInstanceAddResponse).AssetInstanceId
		if s.AssetIDs[iid] {
			r.fail("id", "asset-instance-id-reissued", "asset instance id %d issued twice in session %s", iid, s.ID)
		}
		s.AssetIDs[iid] = true
		a := MAsset{ID: iid, Asset: asset, By: c.PID, Ent: eid}
		s.Assets[eid] = a
		x.add(ci, Exp{Msg: Msg{Type: 202, RID: x.rid, F: fmt.Sprintf("iid=%d", iid)}})
		for _, o := range others {
			x.add(o, Exp{Msg: Msg{Type: 203, Origin: x.ts, F: "asset=" + massetStr(a)}})
		}
		c.View.Assets[eid] = massetStr(a)
	}
}

func (r *Runner) applyViews(x *stepCtx) {
	for i, mc := range r.M.Conns {
		if mc.View == nil {
			continue
		}
		for _, rr := range x.raw[i] {
			if d := mc.View.Apply(rr, mc.BaseValid); d != "" {
				r.fail("inapplicable", r.ev.K+":"+typeName(rr.Type), "step %d %v: connection c%d was sent a broadcast it cannot apply: %s", r.step, r.ev, i, d)
			}
		}
	}
}

func (r *Runner) judgedTypes(mc *MConn) map[uint32]bool {
	types := map[uint32]bool{}
	for t, subs := range mc.Sess.Subs {
		if subs[mc.Idx] && mc.BaseValid[t] {
			types[t] = true
		}
	}
	return types
}

func (r *Runner) checkViews() {
	for i, mc := range r.M.Conns {
		if mc.View == nil || mc.Sess == nil || !mc.Open || !mc.View.Joined {
			continue
		}
		types := r.judgedTypes(mc)
		want := modelState(mc.Sess, types, r.M.Mods)
		have := mc.View.state(types, r.M.Mods)
		if want != have {
			r.fail("view", r.ev.K+":view-differs", "step %d %v: the view of c%d differs from the session state:\n   view : %s\n   model: %s", r.step, r.ev, i, have, want)
		}
	}
}

// Probe joins every live session with a fresh flag-free connection and
// compares what it is handed with the model. Perturbs the world: call last.
func (r *Runner) Probe() {
	for _, s := range r.M.Sessions {
		if !s.Live {
			continue
		}
		p := r.W.ConnectWith(fmt.Sprintf("probe%d", s.Tok), nil)
		r.W.Run()
		p.Take()
		rid := p.NextReqID()
		p.SendMsg(&hagallpb.ParticipantJoinRequest{Type: hagallpb.MsgType_MSG_TYPE_PARTICIPANT_JOIN_REQUEST, Timestamp: r.W.NextTS(), RequestId: rid, SessionId: s.ID})
		r.W.Run()
		v := NewView()
		var pid uint32
		okJoin := false
		for _, rr := range p.Take() {
			if jr, ok := rr.Msg.(*hagallpb.ParticipantJoinResponse); ok {
				okJoin = true
				pid = jr.ParticipantId
				if jr.SessionUuid != s.UUID {
					r.fail("probe", "probe:uuid-differs", "probe joining %s finds uuid %s, members were told %s", s.ID, jr.SessionUuid, s.UUID)
				}
				if s.PartSeen[pid] {
					r.fail("id", "participant-id-reissued", "probe was given participant id %d issued before in session %s", pid, s.ID)
				}
			}
			v.Apply(rr, nil)
		}
		if !okJoin {
			r.fail("probe", "probe:cannot-join-live-session", "session %s has members %v but a newcomer cannot join it", s.ID, s.memberConns())
			continue
		}
		delete(v.PIDs, pid)
		want := modelState(s, nil, r.M.Mods)
		have := v.state(nil, r.M.Mods)
		if want != have {
			r.fail("probe", "probe:state-differs", "the state handed to a newcomer of session %s differs from the session state:\n   probe: %s\n   model: %s", s.ID, have, want)
		}
		p.Close()
		r.W.Run()
	}
	// ended sessions must not resolve (unless the id was reused by a live one)
	for _, s := range r.M.Sessions {
		if s.Live || r.M.liveSessionByID(s.ID) != nil {
			continue
		}
		if _, ok := r.W.Store.GetByGlobalID(s.ID); ok {
			r.fail("registry", "ended-session-resolves", "session %s has ended (no member) but its id still resolves", s.ID)
		}
	}
}

// Finish tears the world down and reports leftovers.
func (r *Runner) Finish() {
	left := r.W.Finish()
	for _, p := range r.W.Panics {
		site := "unknown"
		for _, l := range strings.Split(p.Stack, "\n") {
			if strings.Contains(l, "github.com/aukilabs/hagall") && !strings.HasPrefix(l, "\t") {
				site = l[strings.LastIndex(l, "/")+1:]
				if i := strings.LastIndex(site, "("); i > 0 {
					site = site[:i]
				}
				break
			}
		}
		r.fail("panic", "goroutine-panicked:"+p.Label+":"+site, "a server goroutine (%s) panicked: %s", p.Label, p.Value)
	}
	if len(left) > 0 {
		var ds, ls []string
		for _, l := range left {
			ds = append(ds, l.Desc)
			lab := l.Label
			if strings.HasPrefix(lab, "conn:") {
				lab = "conn"
			}
			ls = append(ls, lab)
		}
		sort.Strings(ls)
		r.fail("teardown", "threads-left:"+strings.Join(ls, ","), "after every client closed these threads never finished: %s", strings.Join(ds, "; "))
	}
}
