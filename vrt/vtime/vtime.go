// Package vtime replaces package time in the instrumented sources. Under an
// active exploration the clock is virtual and timers fire only when the
// environment advances it; otherwise everything falls through to package time.
// The re-exports of the rest of package time are generated (zz_passthrough.go).
package vtime

import (
	"time"

	"verif/vrt"
)

type Timer struct {
	C <-chan time.Time
	r *time.Timer
	v *vrt.VTimer
}

type Ticker struct {
	C <-chan time.Time
	r *time.Ticker
	v *vrt.VTimer
}

func Now() time.Time {
	if t, ok := vrt.VNow(); ok {
		return t
	}
	return time.Now()
}

func Since(t time.Time) time.Duration { return Now().Sub(t) }
func Until(t time.Time) time.Duration { return t.Sub(Now()) }

func NewTimer(d time.Duration) *Timer {
	if v := vrt.NewVTimer(d, false, nil); v != nil {
		return &Timer{C: v.C, v: v}
	}
	r := time.NewTimer(d)
	return &Timer{C: r.C, r: r}
}

func (t *Timer) Stop() bool {
	if t.v != nil {
		return t.v.Stop()
	}
	return t.r.Stop()
}

func (t *Timer) Reset(d time.Duration) bool {
	if t.v != nil {
		return t.v.Reset(d)
	}
	return t.r.Reset(d)
}

func AfterFunc(d time.Duration, f func()) *Timer {
	if v := vrt.NewVTimer(d, false, f); v != nil {
		return &Timer{v: v}
	}
	return &Timer{r: time.AfterFunc(d, f)}
}

func After(d time.Duration) <-chan time.Time { return NewTimer(d).C }

func NewTicker(d time.Duration) *Ticker {
	if d <= 0 {
		panic("non-positive interval for NewTicker")
	}
	if v := vrt.NewVTimer(d, true, nil); v != nil {
		return &Ticker{C: v.C, v: v}
	}
	r := time.NewTicker(d)
	return &Ticker{C: r.C, r: r}
}

func (t *Ticker) Stop() {
	if t.v != nil {
		t.v.Stop()
		return
	}
	t.r.Stop()
}

func (t *Ticker) Reset(d time.Duration) {
	if t.v != nil {
		t.v.Reset(d)
		return
	}
	t.r.Reset(d)
}

func Tick(d time.Duration) <-chan time.Time {
	if d <= 0 {
		return nil
	}
	return NewTicker(d).C
}

func Sleep(d time.Duration) {
	if v := vrt.NewVTimer(d, false, nil); v != nil {
		if vrt.WaitOn(v) {
			<-v.C
			return
		}
		v.Stop()
	}
	time.Sleep(d)
}
