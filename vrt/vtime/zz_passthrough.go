// Code generated from go/types' view of package time; DO NOT EDIT.

package vtime

import orig "time"

const ANSIC = orig.ANSIC
const April = orig.April
const August = orig.August

var Date = orig.Date

const DateOnly = orig.DateOnly
const DateTime = orig.DateTime
const December = orig.December

type Duration = orig.Duration

const February = orig.February

var FixedZone = orig.FixedZone

const Friday = orig.Friday
const Hour = orig.Hour
const January = orig.January
const July = orig.July
const June = orig.June
const Kitchen = orig.Kitchen
const Layout = orig.Layout

var LoadLocation = orig.LoadLocation
var LoadLocationFromTZData = orig.LoadLocationFromTZData
var Local = orig.Local

type Location = orig.Location

const March = orig.March
const May = orig.May
const Microsecond = orig.Microsecond
const Millisecond = orig.Millisecond
const Minute = orig.Minute
const Monday = orig.Monday

type Month = orig.Month

const Nanosecond = orig.Nanosecond
const November = orig.November
const October = orig.October

var Parse = orig.Parse
var ParseDuration = orig.ParseDuration

type ParseError = orig.ParseError

var ParseInLocation = orig.ParseInLocation

const RFC1123 = orig.RFC1123
const RFC1123Z = orig.RFC1123Z
const RFC3339 = orig.RFC3339
const RFC3339Nano = orig.RFC3339Nano
const RFC822 = orig.RFC822
const RFC822Z = orig.RFC822Z
const RFC850 = orig.RFC850
const RubyDate = orig.RubyDate
const Saturday = orig.Saturday
const Second = orig.Second
const September = orig.September
const Stamp = orig.Stamp
const StampMicro = orig.StampMicro
const StampMilli = orig.StampMilli
const StampNano = orig.StampNano
const Sunday = orig.Sunday
const Thursday = orig.Thursday

type Time = orig.Time

const TimeOnly = orig.TimeOnly
const Tuesday = orig.Tuesday

var UTC = orig.UTC
var Unix = orig.Unix

const UnixDate = orig.UnixDate

var UnixMicro = orig.UnixMicro
var UnixMilli = orig.UnixMilli

const Wednesday = orig.Wednesday

type Weekday = orig.Weekday
