//go:build race

package vrt

import "runtime"

const RaceBuild = true

func raceDisable() { runtime.RaceDisable() }
func raceEnable()  { runtime.RaceEnable() }
