//go:build !race

package vrt

const RaceBuild = false

func raceDisable() {}
func raceEnable()  {}
