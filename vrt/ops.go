package vrt

import (
	"cmp"
	"fmt"
	"reflect"
	"slices"
	"sync"
	"time"
)

type realWG struct{ wg sync.WaitGroup }

func (w *realWG) add()  { w.wg.Add(1) }
func (w *realWG) done() { w.wg.Done() }
func (w *realWG) wait() { w.wg.Wait() }

// ---- channel operations (what the rewritten sources call) -------------------

// BeforeSend parks until a send on ch cannot block. The real send follows in
// the rewritten source.
//
//go:norace
func BeforeSend[T any](ch chan<- T) {
	if current() == nil {
		return
	}
	v := reflect.ValueOf(ch)
	if ch != nil && cap(ch) == 0 {
		panic(EngineError{"send on unbuffered channel is not modelled: " + v.Type().String()})
	}
	point(Op{Kind: OpSend, Obj: v.UnsafePointer(), Ch: v})
}

// Recv is `<-ch`.
//
//go:norace
func Recv[T any](ch <-chan T) T {
	if current() != nil {
		v := reflect.ValueOf(ch)
		point(Op{Kind: OpRecv, Obj: v.UnsafePointer(), Ch: v})
	}
	return <-ch
}

// Recv2 is `v, ok := <-ch`.
//
//go:norace
func Recv2[T any](ch <-chan T) (T, bool) {
	if current() != nil {
		v := reflect.ValueOf(ch)
		point(Op{Kind: OpRecv, Obj: v.UnsafePointer(), Ch: v})
	}
	x, ok := <-ch
	return x, ok
}

// BeforeClose is a scheduling point ahead of close(ch).
//
//go:norace
func BeforeClose[T any](ch chan<- T) {
	if current() == nil {
		return
	}
	v := reflect.ValueOf(ch)
	point(Op{Kind: OpClose, Obj: v.UnsafePointer(), Ch: v})
}

//go:norace
func CaseRecv[T any](ch <-chan T) SelCase { return SelCase{Ch: reflect.ValueOf(ch)} }

//go:norace
func CaseSend[T any](ch chan<- T) SelCase {
	return SelCase{Ch: reflect.ValueOf(ch), Send: true}
}

// Select returns the index of the case to execute, -1 for default.
//
//go:norace
func Select(hasDefault bool, cases ...SelCase) int {
	if current() == nil {
		// pass-through (free-running) mode: poll; best effort, used only by
		// code running outside an exploration.
		for {
			for i := range cases {
				if selReady(&cases[i]) {
					return i
				}
			}
			if hasDefault {
				return -1
			}
			time.Sleep(50 * time.Microsecond)
		}
	}
	for _, c := range cases {
		if c.Ch.IsValid() && !c.Ch.IsNil() && c.Ch.Cap() == 0 && c.Send {
			panic(EngineError{"select send on unbuffered channel is not modelled"})
		}
	}
	sel, _ := point(Op{Kind: OpSelect, Sel: cases, SelDef: hasDefault})
	return sel
}

// ---- map iteration ----------------------------------------------------------

// MapKeys returns the keys of m in a canonical order (ascending for ordered
// key kinds, by printed form otherwise); under ExploreMapOrder the rotation of
// that order is a choice point. Pointer-like keys keep Go's own order.
//
//go:norace
func MapKeys[M ~map[K]V, K comparable, V any](m M) []K {
	keys := make([]K, 0, len(m))
	for k := range m {
		keys = append(keys, k)
	}
	if len(keys) < 2 {
		return keys
	}
	sortKeys(keys)
	s := S
	if s != nil && s.cur != nil && s.ExploreMapOrder && !s.cur.unwinding {
		r := s.Choose(ChMapOrder, len(keys), 1, nil)
		if r > 0 {
			keys = append(keys[r:], keys[:r]...)
		}
	}
	return keys
}

func sortKeys[K comparable](keys []K) {
	switch ks := any(keys).(type) {
	case []uint32:
		slices.Sort(ks)
	case []string:
		slices.Sort(ks)
	case []int:
		slices.Sort(ks)
	case []uint64:
		slices.Sort(ks)
	case []int64:
		slices.Sort(ks)
	case []uint:
		slices.Sort(ks)
	case []int32:
		slices.Sort(ks)
	default:
		rv := reflect.ValueOf(keys)
		if rv.Len() == 0 {
			return
		}
		switch rv.Index(0).Kind() {
		case reflect.Int, reflect.Int8, reflect.Int16, reflect.Int32, reflect.Int64:
			slices.SortFunc(keys, func(a, b K) int { return cmp.Compare(reflect.ValueOf(a).Int(), reflect.ValueOf(b).Int()) })
		case reflect.Uint, reflect.Uint8, reflect.Uint16, reflect.Uint32, reflect.Uint64, reflect.Uintptr:
			slices.SortFunc(keys, func(a, b K) int { return cmp.Compare(reflect.ValueOf(a).Uint(), reflect.ValueOf(b).Uint()) })
		case reflect.String:
			slices.SortFunc(keys, func(a, b K) int { return cmp.Compare(reflect.ValueOf(a).String(), reflect.ValueOf(b).String()) })
		case reflect.Float32, reflect.Float64:
			slices.SortFunc(keys, func(a, b K) int { return cmp.Compare(reflect.ValueOf(a).Float(), reflect.ValueOf(b).Float()) })
		case reflect.Pointer, reflect.UnsafePointer, reflect.Chan, reflect.Interface:
			// identity keys: no canonical order exists
		default:
			slices.SortFunc(keys, func(a, b K) int { return cmp.Compare(fmt.Sprint(a), fmt.Sprint(b)) })
		}
	}
}
