package vrt

import (
	"fmt"
	"os"
	"regexp"
	"runtime"
	"strings"
	"sync"
	"time"
)

var watchdogOnce sync.Once

// StartWatchdog starts a process-wide monitor: if the running thread of the
// active scheduler does not reach a scheduling point within d, the code under
// test is spinning (or blocked in something the runtime does not model). The
// goroutine cannot be stopped, so the process prints
// "fatal error: watchdog: ..." with the offending stack and exits with status 3;
// the parent classifies it.
func StartWatchdog(d time.Duration) {
	watchdogOnce.Do(func() {
		go func() {
			var lastS *Sched
			lastSteps := -1
			var since time.Time
			for {
				time.Sleep(500 * time.Millisecond)
				s, steps, running := watchState()
				if s == nil || !running {
					lastS = nil
					continue
				}
				if s != lastS || steps != lastSteps {
					lastS, lastSteps, since = s, steps, time.Now()
					continue
				}
				if time.Since(since) > d {
					buf := make([]byte, 1<<20)
					buf = buf[:runtime.Stack(buf, true)]
					fn := spinningFunc(string(buf))
					fmt.Fprintf(os.Stderr, "fatal error: watchdog: no scheduling point reached in %v; non-terminating or blocked in %s\n\n%s\n", d, fn, buf)
					os.Exit(3)
				}
			}
		}()
	})
}

//go:norace
func watchState() (*Sched, int, bool) {
	s := S
	if s == nil {
		return nil, 0, false
	}
	return s, s.Steps, s.cur != nil
}

var frameRe = regexp.MustCompile(`^(github\.com/aukilabs/hagall\S*)\(`)

// spinningFunc: the innermost hagall function of the thread goroutine that is
// not parked in the scheduler hand-off.
func spinningFunc(all string) string {
	for _, g := range strings.Split(all, "\n\n") {
		if !strings.Contains(g, "verif/vrt.threadMain") || strings.Contains(g, "verif/vrt.point(") {
			continue
		}
		for _, l := range strings.Split(g, "\n") {
			if m := frameRe.FindStringSubmatch(l); m != nil {
				f := m[1]
				return f[strings.LastIndex(f, "/")+1:]
			}
		}
	}
	return "unknown"
}
