package vrt

import (
	"fmt"
	"runtime"
	"strings"
	"time"
	"unsafe"
)

// ---- lock classes -----------------------------------------------------------

var classes = map[unsafe.Pointer]string{}

// ClassOf names a lock instance by the site of its first acquisition in this
// execution ("Mutex@models.(*Session).AddParticipant:71"): stable for a given
// tree and history, independent of addresses.
//
//go:norace
func ClassOf(p unsafe.Pointer, kind string) string {
	if c, ok := classes[p]; ok {
		return c
	}
	c := kind + "@" + callerSite()
	classes[p] = c
	return c
}

//go:norace
func ResetClasses() { classes = map[unsafe.Pointer]string{} }

func callerSite() string {
	var pcs [16]uintptr
	n := runtime.Callers(3, pcs[:])
	fr := runtime.CallersFrames(pcs[:n])
	for {
		f, more := fr.Next()
		if !strings.HasPrefix(f.Function, "verif/vrt") {
			fn := f.Function
			if i := strings.LastIndex(fn, "/"); i >= 0 {
				fn = fn[i+1:]
			}
			return fmt.Sprintf("%s:%d", fn, f.Line)
		}
		if !more {
			return "?"
		}
	}
}

// ---- virtual clock ----------------------------------------------------------

// Base is the virtual epoch.
var Base = time.Date(2024, 1, 1, 0, 0, 0, 0, time.UTC)

type VTimer struct {
	C        chan time.Time
	deadline int64
	period   int64 // >0 for tickers
	active   bool
	seq      int
	fn       func() // AfterFunc
}

type Clock struct {
	now    int64
	timers []*VTimer
	seq    int
	// NowTick nanoseconds are added on every Now() call (a real clock never
	// returns the same instant twice).
	NowTick int64
}

//go:norace
func (s *Sched) Clock() *Clock { return &s.clock }

//go:norace
func VNow() (time.Time, bool) {
	s := S
	if s == nil {
		return time.Time{}, false
	}
	s.clock.now += s.clock.NowTick
	return Base.Add(time.Duration(s.clock.now)), true
}

//go:norace
func NewVTimer(d time.Duration, period bool, fn func()) *VTimer {
	s := S
	if s == nil {
		return nil
	}
	c := &s.clock
	c.seq++
	t := &VTimer{C: make(chan time.Time, 1), deadline: c.now + int64(d), active: true, seq: c.seq, fn: fn}
	if period {
		t.period = int64(d)
	}
	c.timers = append(c.timers, t)
	return t
}

// Stop deactivates the timer and (Go 1.23 semantics) leaves no stale value in
// the channel. Reports whether the timer was active.
//
//go:norace
func (t *VTimer) Stop() bool {
	was := t.active
	t.active = false
	select {
	case <-t.C:
		if t.period == 0 {
			was = true // value had been sent but not received: per Go 1.23, Stop reports true
		}
	default:
	}
	return was
}

//go:norace
func (t *VTimer) Reset(d time.Duration) bool {
	was := t.Stop()
	s := S
	if s == nil {
		return was
	}
	t.deadline = s.clock.now + int64(d)
	if t.period > 0 {
		t.period = int64(d)
	}
	t.active = true
	return was
}

// Ready makes a VTimer a Waiter (used by Sleep).
//
//go:norace
func (t *VTimer) Ready() bool { return len(t.C) > 0 }

func (t *VTimer) WaitName() string { return "sleep" }

// NextDeadline returns the earliest active deadline (ns since Base).
//
//go:norace
func (c *Clock) NextDeadline() (int64, bool) {
	var best *VTimer
	for _, t := range c.timers {
		if t.active && (best == nil || t.deadline < best.deadline || (t.deadline == best.deadline && t.seq < best.seq)) {
			best = t
		}
	}
	if best == nil {
		return 0, false
	}
	return best.deadline, true
}

//go:norace
func (c *Clock) NowNS() int64 { return c.now }

// Advance moves the virtual clock forward by d, firing every timer whose
// deadline is reached, in deadline order. Called by the environment only
// (from the controller goroutine, no thread running).
//
//go:norace
func (s *Sched) Advance(d time.Duration) (fired int) {
	c := &s.clock
	target := c.now + int64(d)
	for {
		var best *VTimer
		for _, t := range c.timers {
			if t.active && t.deadline <= target && (best == nil || t.deadline < best.deadline || (t.deadline == best.deadline && t.seq < best.seq)) {
				best = t
			}
		}
		if best == nil {
			break
		}
		if best.deadline > c.now {
			c.now = best.deadline
		}
		fired++
		if best.fn != nil {
			best.active = false
			s.Spawn("afterfunc", best.fn)
			continue
		}
		select {
		case best.C <- Base.Add(time.Duration(c.now)):
		default: // receiver is slow: the tick is dropped, as in package time
		}
		if best.period > 0 {
			best.deadline += best.period
			if best.deadline <= c.now { // never schedule in the past
				best.deadline = c.now + best.period
			}
		} else {
			best.active = false
		}
	}
	c.now = target
	// compact
	k := 0
	for _, t := range c.timers {
		if t.active {
			c.timers[k] = t
			k++
		}
	}
	c.timers = c.timers[:k]
	return fired
}
