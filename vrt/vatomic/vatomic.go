// Package vatomic replaces sync/atomic in the instrumented sources: every
// atomic operation is preceded by a scheduling point, so that interleavings
// between two atomic operations (a load followed by a store) are explored.
package vatomic

import (
	"sync/atomic"
	"unsafe"

	"verif/vrt"
)

func y() { vrt.Yield() }

func AddInt32(p *int32, d int32) int32         { y(); return atomic.AddInt32(p, d) }
func AddInt64(p *int64, d int64) int64         { y(); return atomic.AddInt64(p, d) }
func AddUint32(p *uint32, d uint32) uint32     { y(); return atomic.AddUint32(p, d) }
func AddUint64(p *uint64, d uint64) uint64     { y(); return atomic.AddUint64(p, d) }
func AddUintptr(p *uintptr, d uintptr) uintptr { y(); return atomic.AddUintptr(p, d) }

func LoadInt32(p *int32) int32                     { y(); return atomic.LoadInt32(p) }
func LoadInt64(p *int64) int64                     { y(); return atomic.LoadInt64(p) }
func LoadUint32(p *uint32) uint32                  { y(); return atomic.LoadUint32(p) }
func LoadUint64(p *uint64) uint64                  { y(); return atomic.LoadUint64(p) }
func LoadUintptr(p *uintptr) uintptr               { y(); return atomic.LoadUintptr(p) }
func LoadPointer(p *unsafe.Pointer) unsafe.Pointer { y(); return atomic.LoadPointer(p) }

func StoreInt32(p *int32, v int32)                     { y(); atomic.StoreInt32(p, v) }
func StoreInt64(p *int64, v int64)                     { y(); atomic.StoreInt64(p, v) }
func StoreUint32(p *uint32, v uint32)                  { y(); atomic.StoreUint32(p, v) }
func StoreUint64(p *uint64, v uint64)                  { y(); atomic.StoreUint64(p, v) }
func StoreUintptr(p *uintptr, v uintptr)               { y(); atomic.StoreUintptr(p, v) }
func StorePointer(p *unsafe.Pointer, v unsafe.Pointer) { y(); atomic.StorePointer(p, v) }

func SwapInt32(p *int32, v int32) int32         { y(); return atomic.SwapInt32(p, v) }
func SwapInt64(p *int64, v int64) int64         { y(); return atomic.SwapInt64(p, v) }
func SwapUint32(p *uint32, v uint32) uint32     { y(); return atomic.SwapUint32(p, v) }
func SwapUint64(p *uint64, v uint64) uint64     { y(); return atomic.SwapUint64(p, v) }
func SwapUintptr(p *uintptr, v uintptr) uintptr { y(); return atomic.SwapUintptr(p, v) }
func SwapPointer(p *unsafe.Pointer, v unsafe.Pointer) unsafe.Pointer {
	y()
	return atomic.SwapPointer(p, v)
}

func CompareAndSwapInt32(p *int32, o, n int32) bool { y(); return atomic.CompareAndSwapInt32(p, o, n) }
func CompareAndSwapInt64(p *int64, o, n int64) bool { y(); return atomic.CompareAndSwapInt64(p, o, n) }
func CompareAndSwapUint32(p *uint32, o, n uint32) bool {
	y()
	return atomic.CompareAndSwapUint32(p, o, n)
}
func CompareAndSwapUint64(p *uint64, o, n uint64) bool {
	y()
	return atomic.CompareAndSwapUint64(p, o, n)
}
func CompareAndSwapUintptr(p *uintptr, o, n uintptr) bool {
	y()
	return atomic.CompareAndSwapUintptr(p, o, n)
}
func CompareAndSwapPointer(p *unsafe.Pointer, o, n unsafe.Pointer) bool {
	y()
	return atomic.CompareAndSwapPointer(p, o, n)
}

func AndInt32(p *int32, m int32) int32     { y(); return atomic.AndInt32(p, m) }
func AndUint32(p *uint32, m uint32) uint32 { y(); return atomic.AndUint32(p, m) }
func AndInt64(p *int64, m int64) int64     { y(); return atomic.AndInt64(p, m) }
func AndUint64(p *uint64, m uint64) uint64 { y(); return atomic.AndUint64(p, m) }
func OrInt32(p *int32, m int32) int32      { y(); return atomic.OrInt32(p, m) }
func OrUint32(p *uint32, m uint32) uint32  { y(); return atomic.OrUint32(p, m) }
func OrInt64(p *int64, m int64) int64      { y(); return atomic.OrInt64(p, m) }
func OrUint64(p *uint64, m uint64) uint64  { y(); return atomic.OrUint64(p, m) }

type Int32 struct{ v atomic.Int32 }

func (x *Int32) Load() int32                    { y(); return x.v.Load() }
func (x *Int32) Store(n int32)                  { y(); x.v.Store(n) }
func (x *Int32) Swap(n int32) int32             { y(); return x.v.Swap(n) }
func (x *Int32) Add(d int32) int32              { y(); return x.v.Add(d) }
func (x *Int32) CompareAndSwap(o, n int32) bool { y(); return x.v.CompareAndSwap(o, n) }

type Int64 struct{ v atomic.Int64 }

func (x *Int64) Load() int64                    { y(); return x.v.Load() }
func (x *Int64) Store(n int64)                  { y(); x.v.Store(n) }
func (x *Int64) Swap(n int64) int64             { y(); return x.v.Swap(n) }
func (x *Int64) Add(d int64) int64              { y(); return x.v.Add(d) }
func (x *Int64) CompareAndSwap(o, n int64) bool { y(); return x.v.CompareAndSwap(o, n) }

type Uint32 struct{ v atomic.Uint32 }

func (x *Uint32) Load() uint32                    { y(); return x.v.Load() }
func (x *Uint32) Store(n uint32)                  { y(); x.v.Store(n) }
func (x *Uint32) Swap(n uint32) uint32            { y(); return x.v.Swap(n) }
func (x *Uint32) Add(d uint32) uint32             { y(); return x.v.Add(d) }
func (x *Uint32) CompareAndSwap(o, n uint32) bool { y(); return x.v.CompareAndSwap(o, n) }

type Uint64 struct{ v atomic.Uint64 }

func (x *Uint64) Load() uint64                    { y(); return x.v.Load() }
func (x *Uint64) Store(n uint64)                  { y(); x.v.Store(n) }
func (x *Uint64) Swap(n uint64) uint64            { y(); return x.v.Swap(n) }
func (x *Uint64) Add(d uint64) uint64             { y(); return x.v.Add(d) }
func (x *Uint64) CompareAndSwap(o, n uint64) bool { y(); return x.v.CompareAndSwap(o, n) }

type Uintptr struct{ v atomic.Uintptr }

func (x *Uintptr) Load() uintptr                    { y(); return x.v.Load() }
func (x *Uintptr) Store(n uintptr)                  { y(); x.v.Store(n) }
func (x *Uintptr) Swap(n uintptr) uintptr           { y(); return x.v.Swap(n) }
func (x *Uintptr) Add(d uintptr) uintptr            { y(); return x.v.Add(d) }
func (x *Uintptr) CompareAndSwap(o, n uintptr) bool { y(); return x.v.CompareAndSwap(o, n) }

type Bool struct{ v atomic.Bool }

func (x *Bool) Load() bool                    { y(); return x.v.Load() }
func (x *Bool) Store(n bool)                  { y(); x.v.Store(n) }
func (x *Bool) Swap(n bool) bool              { y(); return x.v.Swap(n) }
func (x *Bool) CompareAndSwap(o, n bool) bool { y(); return x.v.CompareAndSwap(o, n) }

type Pointer[T any] struct{ v atomic.Pointer[T] }

func (x *Pointer[T]) Load() *T                    { y(); return x.v.Load() }
func (x *Pointer[T]) Store(n *T)                  { y(); x.v.Store(n) }
func (x *Pointer[T]) Swap(n *T) *T                { y(); return x.v.Swap(n) }
func (x *Pointer[T]) CompareAndSwap(o, n *T) bool { y(); return x.v.CompareAndSwap(o, n) }

type Value struct{ v atomic.Value }

func (x *Value) Load() any                    { y(); return x.v.Load() }
func (x *Value) Store(n any)                  { y(); x.v.Store(n) }
func (x *Value) Swap(n any) any               { y(); return x.v.Swap(n) }
func (x *Value) CompareAndSwap(o, n any) bool { y(); return x.v.CompareAndSwap(o, n) }
