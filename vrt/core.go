// Package vrt is the virtual runtime: a cooperative, fully controlled scheduler
// under which the instrumented hagall sources run. Exactly one thread runs at
// a time; at every synchronisation operation the running thread parks and the
// controller (the harness goroutine) decides who runs next.
//
// In the -race build the hand-off between threads and controller must not
// create happens-before edges, otherwise Go's race detector could not see the
// races of the program under test. Therefore (a) every hand-off channel
// operation is bracketed by runtime.RaceDisable/RaceEnable and (b) every
// function that touches scheduler state is //go:norace.
package vrt

import (
	"fmt"
	"reflect"
	"runtime"
	"sort"
	"strings"
	"unsafe"
)

type OpKind uint8

const (
	OpStart OpKind = iota
	OpLock
	OpRLock
	OpWAnnounce
	OpWLock
	OpOnce
	OpWGWait
	OpSend
	OpRecv
	OpClose
	OpSelect
	OpWait // harness-defined waitable (pipe read/write)
	OpYield
)

var opNames = [...]string{"start", "lock", "rlock", "wannounce", "wlock", "once", "wgwait", "send", "recv", "close", "select", "wait", "yield"}

func (k OpKind) String() string { return opNames[k] }

// Waiter is implemented by harness objects (in-memory pipes) on which a thread
// may block. All methods must be //go:norace.
type Waiter interface {
	Ready() bool
	WaitName() string
}

// LockModel is implemented by the vsync primitives.
type LockModel interface {
	CanAcquire(kind OpKind) bool
	// Acquire performs the model transition; it reports whether the lock is
	// now held by the caller.
	Acquire(kind OpKind) bool
	Class() string // for the lock-order graph: creation-site independent class name (type of primitive)
}

type SelCase struct {
	Ch   reflect.Value
	Send bool
}

type Op struct {
	Kind   OpKind
	Obj    unsafe.Pointer
	Ch     reflect.Value
	LM     LockModel
	Class  string // lock class, computed on the locking thread
	W      Waiter
	Sel    []SelCase
	SelDef bool
}

type tstate uint8

const (
	tParked tstate = iota
	tRunning
	tDone
)

type wakeMsg struct{ abort bool }

type Thread struct {
	ID    int
	Label string
	// Eager threads are scheduled with priority and never form a choice point.
	Eager bool
	// Daemon threads may remain parked forever without that being a deadlock.
	Daemon bool

	// Parent is the thread that spawned this one (nil for harness-spawned).
	Parent *Thread

	s         *Sched
	wake      chan wakeMsg
	op        Op
	state     tstate
	selChoice int
	held      []heldLock
	unwinding bool
	Panic     any
	PanicStk  string
	Steps     int
	waitNoted int
}

type heldLock struct {
	p     unsafe.Pointer
	class string
	read  bool
}

// ChoiceKind classifies a choice point.
type ChoiceKind uint8

const (
	ChThread ChoiceKind = iota
	ChSelect
	ChMapOrder
	ChEnv
)

var chNames = [...]string{"thread", "select", "maporder", "env"}

func (k ChoiceKind) String() string { return chNames[k] }

// ChoicePoint describes one point at which more than one continuation existed.
type ChoicePoint struct {
	Kind ChoiceKind
	N    int
	// AltCost is the number of deviations charged for taking any alternative
	// other than 0 at this point.
	AltCost int
	Chosen  int
	// Desc lists the options (debugging / replay files).
	Desc []string
}

// Chooser decides choice points. idx is the ordinal of the choice point.
type Chooser interface {
	Choose(idx int, cp *ChoicePoint) int
}

// EngineError is a failure of the machinery itself, never a property verdict.
type EngineError struct{ Msg string }

func (e EngineError) Error() string { return "engine error: " + e.Msg }

type abortSentinel struct{}

type LockEdge struct{ From, To string }

type Sched struct {
	Threads []*Thread
	cur     *Thread
	reqc    chan *Thread
	chooser Chooser
	Points  []ChoicePoint
	Steps   int
	MaxStep int
	HitCap  bool

	aborting bool
	lastRun  *Thread // thread that ran in the previous step (for preemption accounting)

	// EagerLabels: threads whose label has one of these prefixes are eager.
	EagerLabels []string
	// EagerFn, if set, decides eagerness of a new thread instead.
	EagerFn func(t *Thread) bool
	// ExploreMapOrder: map iteration order becomes a choice point.
	ExploreMapOrder bool
	// ExploreSelect: which ready select case is taken becomes a choice point.
	ExploreSelect bool
	// NoPreempt: sequential mode. The running thread continues while enabled,
	// otherwise the lowest enabled thread runs; no choice point is recorded.
	NoPreempt bool
	// PreemptFilter, if set, restricts which threads' scheduling points are
	// preemption candidates (thread about to run op).
	LockEdges map[LockEdge]struct{}

	// Waits: every time a thread had to wait for a send or a lock.
	Waits []string
	// Trace of (thread id, op kind) per step, kept only when TraceOn.
	TraceOn bool
	Trace   []string

	// Blocked-on-channel observations: thread label -> object, recorded when a
	// thread was found parked and disabled at quiescence.
	wg    realWG
	clock Clock
}

// S is the active scheduler, nil when code runs free (pass-through).
var S *Sched

//go:norace
func NewSched(ch Chooser) *Sched {
	return &Sched{
		reqc:      make(chan *Thread, 1),
		chooser:   ch,
		MaxStep:   200000,
		LockEdges: map[LockEdge]struct{}{},
	}
}

//go:norace
func current() *Thread {
	s := S
	if s == nil {
		return nil
	}
	return s.cur
}

// Cur returns the running thread, nil when called from outside a thread.
//
//go:norace
func Cur() *Thread { return current() }

// Active reports whether the caller runs as a controlled thread.
//
//go:norace
func Active() bool { return current() != nil }

//go:norace
func opEnabled(op *Op) bool {
	switch op.Kind {
	case OpStart, OpYield, OpWAnnounce, OpClose:
		return true
	case OpLock, OpRLock, OpWLock, OpOnce, OpWGWait:
		return op.LM.CanAcquire(op.Kind)
	case OpSend:
		return chanCanSend(op.Ch)
	case OpRecv:
		return chanCanRecv(op.Ch)
	case OpSelect:
		if op.SelDef {
			return true
		}
		for i := range op.Sel {
			if selReady(&op.Sel[i]) {
				return true
			}
		}
		return false
	case OpWait:
		return op.W.Ready()
	}
	return false
}

//go:norace
func selReady(c *SelCase) bool {
	if c.Send {
		return chanCanSend(c.Ch)
	}
	return chanCanRecv(c.Ch)
}

//go:norace
func chanCanSend(ch reflect.Value) bool {
	if !ch.IsValid() || ch.IsNil() {
		return false
	}
	if chanClosed(ch) {
		return true // the send will panic, which is the program's behaviour
	}
	c := ch.Cap()
	if c == 0 {
		return false // unbuffered rendezvous is not modelled; see Point()
	}
	return ch.Len() < c
}

//go:norace
func chanCanRecv(ch reflect.Value) bool {
	if !ch.IsValid() || ch.IsNil() {
		return false
	}
	if ch.Len() > 0 {
		return true
	}
	return chanClosed(ch)
}

// hchanClosedOffset: the runtime's hchan layout {qcount uint; dataqsiz uint;
// buf unsafe.Pointer; elemsize uint16; closed uint32; ...}. Checked by a
// self-test at start-up (SelfTest).
const hchanClosedOffset = 8 + 8 + 8 + 4

//go:norace
func chanClosed(ch reflect.Value) bool {
	p := ch.UnsafePointer()
	if p == nil {
		return false
	}
	return *(*uint32)(unsafe.Add(p, hchanClosedOffset)) != 0
}

// SelfTest validates the assumptions about the Go runtime this package makes.
func SelfTest() error {
	c := make(chan int, 1)
	if chanClosed(reflect.ValueOf(c)) {
		return fmt.Errorf("hchan layout: open channel reads as closed")
	}
	c <- 1
	if chanClosed(reflect.ValueOf(c)) {
		return fmt.Errorf("hchan layout: open channel reads as closed")
	}
	close(c)
	if !chanClosed(reflect.ValueOf(c)) {
		return fmt.Errorf("hchan layout: closed channel reads as open")
	}
	d := make(chan struct{})
	if chanClosed(reflect.ValueOf(d)) {
		return fmt.Errorf("hchan layout")
	}
	close(d)
	if !chanClosed(reflect.ValueOf(d)) {
		return fmt.Errorf("hchan layout")
	}
	return nil
}

// point parks the calling thread on op until the controller grants it.
// Returns the select choice for OpSelect. Outside a controlled thread it
// returns immediately with ok=false (pass-through).
//
//go:norace
func point(op Op) (sel int, ok bool) {
	s := S
	if s == nil {
		return 0, false
	}
	t := s.cur
	if t == nil {
		return 0, false
	}
	if t.unwinding {
		// abort mode: pass through when the operation cannot block, keep
		// unwinding otherwise.
		if opEnabled(&op) {
			applyOp(s, t, &op)
			return t.selChoice, true
		}
		panic(abortSentinel{})
	}
	t.op = op
	t.state = tParked
	raceDisable()
	s.reqc <- t
	m := <-t.wake
	raceEnable()
	if m.abort {
		t.unwinding = true
		panic(abortSentinel{})
	}
	return t.selChoice, true
}

// Yield is an explicit, always enabled scheduling point.
//
//go:norace
func Yield() { point(Op{Kind: OpYield}) }

// WaitOn parks the thread until w is ready. Returns false in pass-through mode.
//
//go:norace
func WaitOn(w Waiter) bool {
	_, ok := point(Op{Kind: OpWait, W: w})
	return ok
}

// LockPoint is used by vsync.
//
//go:norace
func LockPoint(kind OpKind, obj unsafe.Pointer, lm LockModel) bool {
	if current() == nil {
		return false
	}
	// the class names the site of the first acquisition: it must be computed
	// here, on the locking thread's stack
	_, ok := point(Op{Kind: kind, Obj: obj, LM: lm, Class: lm.Class()})
	return ok
}

// Released is called by vsync when a lock is released (no scheduling point).
//
//go:norace
func Released(obj unsafe.Pointer) {
	s := S
	if s == nil {
		return
	}
	t := s.cur
	if t != nil {
		for i := len(t.held) - 1; i >= 0; i-- {
			if t.held[i].p == obj {
				t.held = append(t.held[:i], t.held[i+1:]...)
				return
			}
		}
	}
	for _, o := range s.Threads {
		for i := len(o.held) - 1; i >= 0; i-- {
			if o.held[i].p == obj {
				o.held = append(o.held[:i], o.held[i+1:]...)
				return
			}
		}
	}
}

//go:norace
func applyOp(s *Sched, t *Thread, op *Op) {
	switch op.Kind {
	case OpLock, OpRLock, OpWLock, OpWAnnounce:
		if op.LM.Acquire(op.Kind) {
			cls := op.Class
			for _, h := range t.held {
				if h.p != op.Obj && h.class != cls {
					s.LockEdges[LockEdge{h.class, cls}] = struct{}{}
				}
			}
			t.held = append(t.held, heldLock{op.Obj, cls, op.Kind == OpRLock})
		}
	case OpOnce, OpWGWait:
		op.LM.Acquire(op.Kind)
	case OpSelect:
		var ready []int
		for i := range op.Sel {
			if selReady(&op.Sel[i]) {
				ready = append(ready, i)
			}
		}
		switch {
		case len(ready) == 0:
			t.selChoice = -1
		case len(ready) == 1 || !s.ExploreSelect || t.unwinding:
			t.selChoice = ready[0]
		default:
			cp := ChoicePoint{Kind: ChSelect, N: len(ready), AltCost: 1}
			if s.TraceOn {
				for _, r := range ready {
					cp.Desc = append(cp.Desc, fmt.Sprintf("T%d select case %d", t.ID, r))
				}
			}
			t.selChoice = ready[s.choose(&cp)]
		}
	}
}

//go:norace
func (s *Sched) choose(cp *ChoicePoint) int {
	idx := len(s.Points)
	c := s.chooser.Choose(idx, cp)
	if c < 0 || c >= cp.N {
		panic(EngineError{fmt.Sprintf("choice %d out of range (n=%d) at point %d kind %v: replay diverged", c, cp.N, idx, cp.Kind)})
	}
	cp.Chosen = c
	s.Points = append(s.Points, *cp)
	return c
}

// Choose lets harness code (environment) or instrumented code (map order)
// take a recorded choice.
//
//go:norace
func (s *Sched) Choose(kind ChoiceKind, n, altCost int, desc []string) int {
	if n <= 1 {
		return 0
	}
	cp := ChoicePoint{Kind: kind, N: n, AltCost: altCost, Desc: desc}
	return s.choose(&cp)
}

//go:norace
func (s *Sched) isEager(label string) bool {
	for _, p := range s.EagerLabels {
		if strings.HasPrefix(label, p) {
			return true
		}
	}
	return false
}

// Spawn creates a controlled thread running f. It may be called by the
// harness (before or between steps) or by a running thread (vrt.Go).
//
//go:norace
func (s *Sched) Spawn(label string, f func()) *Thread {
	t := &Thread{ID: len(s.Threads) + 1, Label: label, s: s, wake: make(chan wakeMsg, 1), Parent: s.cur}
	t.Eager = s.isEager(label)
	if s.EagerFn != nil {
		t.Eager = s.EagerFn(t)
	}
	t.op = Op{Kind: OpStart}
	t.state = tParked
	s.Threads = append(s.Threads, t)
	s.wg.add()
	go threadMain(s, t, f)
	return t
}

func threadMain(s *Sched, t *Thread, f func()) {
	defer s.wg.done()
	defer threadExit(s, t)
	raceDisable()
	m := <-t.wake
	raceEnable()
	if m.abort {
		return
	}
	f()
}

//go:norace
func threadExit(s *Sched, t *Thread) {
	if r := recover(); r != nil {
		if _, ok := r.(abortSentinel); !ok {
			t.Panic = r
			buf := make([]byte, 16384)
			t.PanicStk = string(buf[:runtime.Stack(buf, false)])
		}
	}
	t.state = tDone
	t.unwinding = false
	raceDisable()
	s.reqc <- t
	raceEnable()
}

// Go is what the rewritten `go` statement calls.
//
//go:norace
func Go(label string, f func()) {
	s := S
	if s == nil || s.cur == nil {
		go f()
		return
	}
	s.Spawn(label, f)
}

// enabledThreads returns the parked threads whose operation is enabled:
// the thread that ran last first (if still enabled), then ascending ids.
//
//go:norace
func (s *Sched) enabledThreads() []*Thread {
	var out []*Thread
	if lr := s.lastRun; lr != nil && lr.state == tParked && opEnabled(&lr.op) {
		out = append(out, lr)
	}
	for _, t := range s.Threads {
		if t == s.lastRun || t.state != tParked {
			continue
		}
		if opEnabled(&t.op) {
			out = append(out, t)
		} else {
			s.noteWait(t)
		}
	}
	if lr := s.lastRun; lr != nil && lr.state == tParked && !opEnabled(&lr.op) {
		s.noteWait(lr)
	}
	return out
}

// noteWait remembers that a thread has to wait for a send or a lock (for the
// "never parks on X" oracles); once per pending operation.
//
//go:norace
func (s *Sched) noteWait(t *Thread) {
	if t.waitNoted == t.Steps+1 {
		return
	}
	switch t.op.Kind {
	case OpSend, OpLock, OpWLock, OpRLock:
	default:
		return
	}
	t.waitNoted = t.Steps + 1
	d := t.Label + " " + t.op.Kind.String()
	if t.op.Kind == OpSend {
		d += " chan " + t.op.Ch.Type().Elem().String()
	} else if t.op.Class != "" {
		d += " " + t.op.Class
	}
	if len(s.Waits) < 256 {
		s.Waits = append(s.Waits, d)
	}
}

// ForgetLastRun makes the next thread choice free of charge: at the start of
// a concurrent block no thread "is running", so every start order costs 0.
//
//go:norace
func (s *Sched) ForgetLastRun() { s.lastRun = nil }

// Quiescent reports whether no thread can run.
//
//go:norace
func (s *Sched) Quiescent() bool { return len(s.enabledThreads()) == 0 }

// Step runs one thread for one transition (until its next scheduling point).
// Returns false when no thread is enabled.
//
//go:norace
func (s *Sched) Step() bool {
	en := s.enabledThreads()
	if len(en) == 0 {
		return false
	}
	var t *Thread
	// eager threads first, no choice
	for _, e := range en {
		if e.Eager {
			t = e
			break
		}
	}
	if t == nil {
		if len(en) == 1 || s.NoPreempt {
			t = en[0]
		} else {
			cp := ChoicePoint{Kind: ChThread, N: len(en)}
			if en[0] == s.lastRun {
				cp.AltCost = 1 // switching away from a runnable thread is a preemption
			}
			if s.TraceOn {
				for _, e := range en {
					cp.Desc = append(cp.Desc, fmt.Sprintf("T%d(%s) %v", e.ID, e.Label, e.op.Kind))
				}
			}
			t = en[s.choose(&cp)]
		}
	}
	s.run(t)
	return true
}

//go:norace
func (s *Sched) run(t *Thread) {
	s.Steps++
	t.Steps++
	if s.TraceOn {
		s.Trace = append(s.Trace, fmt.Sprintf("T%d:%s:%v", t.ID, t.Label, t.op.Kind))
	}
	applyOp(s, t, &t.op)
	if !t.Eager {
		s.lastRun = t
	}
	s.cur = t
	t.state = tRunning
	raceDisable()
	t.wake <- wakeMsg{}
	t2 := <-s.reqc
	raceEnable()
	s.cur = nil
	if t2 != t {
		panic(EngineError{fmt.Sprintf("thread %d parked while thread %d was running: an uncontrolled goroutine entered the runtime", t2.ID, t.ID)})
	}
}

// Root returns the harness-spawned ancestor of t.
//
//go:norace
func (t *Thread) Root() *Thread {
	for t.Parent != nil {
		t = t.Parent
	}
	return t
}

// RunScript is the S3 driver: env is a list of environment actions; by
// default every action is taken at quiescence (cost 0); taking the next action
// while threads can still run is a deviation (cost 1). Thread choices are
// made by Step as usual.
//
//go:norace
func (s *Sched) RunScript(env []func()) {
	next := 0
	for s.Steps < s.MaxStep {
		en := s.enabledThreads()
		if next >= len(env) {
			if len(en) == 0 {
				return
			}
			s.Step()
			continue
		}
		if len(en) == 0 {
			env[next]()
			next++
			continue
		}
		if s.NoPreempt || s.Choose(ChEnv, 2, 1, nil) == 0 {
			s.Step()
			continue
		}
		env[next]()
		next++
	}
	s.HitCap = true
}

// RunQuiescent steps until no thread is enabled or the step cap is hit.
//
//go:norace
func (s *Sched) RunQuiescent() {
	for s.Steps < s.MaxStep {
		if !s.Step() {
			return
		}
	}
	s.HitCap = true
}

// Blocked lists live, parked, disabled, non-daemon threads (deadlock suspects
// when the environment has nothing more to offer).
//
//go:norace
func (s *Sched) Blocked() []*Thread {
	var out []*Thread
	for _, t := range s.Threads {
		if t.state == tParked && !opEnabled(&t.op) {
			out = append(out, t)
		}
	}
	return out
}

// Live lists the threads that have not finished.
//
//go:norace
func (s *Sched) Live() []*Thread {
	var out []*Thread
	for _, t := range s.Threads {
		if t.state != tDone {
			out = append(out, t)
		}
	}
	return out
}

// Describe returns "label: op on class" of what a parked thread waits for.
//
//go:norace
func (t *Thread) Describe() string {
	d := fmt.Sprintf("T%d(%s) %v", t.ID, t.Label, t.op.Kind)
	if t.op.Class != "" {
		d += " " + t.op.Class
	}
	if t.op.W != nil {
		d += " " + t.op.W.WaitName()
	}
	if t.op.Kind == OpSend || t.op.Kind == OpRecv {
		d += fmt.Sprintf(" chan(len=%d,cap=%d,%s)", t.op.Ch.Len(), t.op.Ch.Cap(), t.op.Ch.Type().Elem().String())
	}
	if len(t.held) > 0 {
		d += " holding"
		for _, h := range t.held {
			d += " " + h.class
		}
	}
	return d
}

//go:norace
func (t *Thread) Done() bool { return t.state == tDone }

//go:norace
func (t *Thread) OpKind() OpKind { return t.op.Kind }

//go:norace
func (t *Thread) Waiter() Waiter { return t.op.W }

// Abort releases every remaining thread: each is woken in abort mode and
// unwinds through the program's own defers. After Abort no goroutine of the
// execution survives.
//
//go:norace
func (s *Sched) Abort() {
	s.aborting = true
	for i := 0; i < len(s.Threads); i++ { // Threads may grow while unwinding
		t := s.Threads[i]
		if t.state == tDone {
			continue
		}
		s.cur = t
		t.state = tRunning
		raceDisable()
		t.wake <- wakeMsg{abort: true}
		for {
			t2 := <-s.reqc
			if t2 == t {
				break
			}
			// a thread spawned during unwinding finished/parked; abort it later
		}
		raceEnable()
		s.cur = nil
	}
	s.wg.wait()
}

// Join waits (with a real happens-before edge) for all thread goroutines to
// have exited. Call only when every thread is done.
func (s *Sched) Join() { s.wg.wait() }

// LockCycle returns a cycle in the accumulated lock-order graph, or nil.
func LockCycle(edges map[LockEdge]struct{}) []string {
	adj := map[string][]string{}
	for e := range edges {
		adj[e.From] = append(adj[e.From], e.To)
	}
	for k := range adj {
		sort.Strings(adj[k])
	}
	var nodes []string
	for k := range adj {
		nodes = append(nodes, k)
	}
	sort.Strings(nodes)
	color := map[string]int{}
	var stack []string
	var found []string
	var dfs func(n string) bool
	dfs = func(n string) bool {
		color[n] = 1
		stack = append(stack, n)
		for _, m := range adj[n] {
			if color[m] == 1 {
				for i, x := range stack {
					if x == m {
						found = append(append([]string{}, stack[i:]...), m)
						return true
					}
				}
			}
			if color[m] == 0 && dfs(m) {
				return true
			}
		}
		stack = stack[:len(stack)-1]
		color[n] = 2
		return false
	}
	for _, n := range nodes {
		if color[n] == 0 && dfs(n) {
			return found
		}
	}
	return nil
}

// IsAbort reports whether a recovered value is the scheduler's abort
// sentinel (which must be re-panicked, never swallowed).
func IsAbort(r any) bool { _, ok := r.(abortSentinel); return ok }

// Stack returns the current goroutine's stack.
func Stack() string {
	buf := make([]byte, 16384)
	return string(buf[:runtime.Stack(buf, false)])
}
