// Package vsync replaces package sync in the instrumented sources: Mutex,
// RWMutex, Once and WaitGroup consult the controlled scheduler before every
// potentially blocking operation and then perform the real operation (which
// therefore never blocks, and which gives the race detector the program's
// genuine happens-before edges).
package vsync

import (
	"sync"
	"unsafe"

	"verif/vrt"
)

type (
	Locker = sync.Locker
	Pool   = sync.Pool
	Map    = sync.Map
	Cond   = sync.Cond
)

var NewCond = sync.NewCond

func OnceFunc(f func()) func() { return sync.OnceFunc(f) }

// ---- Mutex ------------------------------------------------------------------

type Mutex struct {
	mu   sync.Mutex
	held bool
}

type mutexModel Mutex

//go:norace
func (m *mutexModel) CanAcquire(vrt.OpKind) bool { return !m.held }

//go:norace
func (m *mutexModel) Acquire(vrt.OpKind) bool { m.held = true; return true }

func (m *mutexModel) Class() string { return vrt.ClassOf(unsafe.Pointer(m), "Mutex") }

//go:norace
func (m *Mutex) Lock() {
	if !vrt.LockPoint(vrt.OpLock, unsafe.Pointer(m), (*mutexModel)(m)) {
		m.mu.Lock()
		m.held = true
		return
	}
	m.mu.Lock()
}

//go:norace
func (m *Mutex) TryLock() bool {
	if m.held {
		return false
	}
	if !m.mu.TryLock() {
		return false
	}
	m.held = true
	return true
}

//go:norace
func (m *Mutex) Unlock() {
	m.held = false
	vrt.Released(unsafe.Pointer(m))
	m.mu.Unlock()
}

// ---- RWMutex ----------------------------------------------------------------

type RWMutex struct {
	mu       sync.RWMutex
	writer   bool
	readers  int
	wwaiting int
	direct   bool // the last Lock call acquired without waiting
}

type rwModel RWMutex

//go:norace
func (m *rwModel) CanAcquire(k vrt.OpKind) bool {
	switch k {
	case vrt.OpRLock:
		// Go's RWMutex: a blocked Lock call excludes new readers.
		return !m.writer && m.wwaiting == 0
	case vrt.OpWLock:
		return !m.writer && m.readers == 0
	}
	return true
}

//go:norace
func (m *rwModel) Acquire(k vrt.OpKind) bool {
	switch k {
	case vrt.OpRLock:
		m.readers++
		return true
	case vrt.OpWAnnounce:
		// the Lock call begins: it takes the lock at once if it is free,
		// otherwise it becomes a waiting writer (which excludes new readers)
		if !m.writer && m.readers == 0 && m.wwaiting == 0 {
			m.writer = true
			m.direct = true
			return true
		}
		m.wwaiting++
		return false
	case vrt.OpWLock:
		m.wwaiting--
		m.writer = true
		return true
	}
	return false
}

func (m *rwModel) Class() string { return vrt.ClassOf(unsafe.Pointer(m), "RWMutex") }

//go:norace
func (m *RWMutex) Lock() {
	if !vrt.Active() {
		m.mu.Lock()
		m.writer = true
		return
	}
	// the call itself is a scheduling point (always enabled); it either
	// acquires the free lock or turns into a waiting writer
	vrt.LockPoint(vrt.OpWAnnounce, unsafe.Pointer(m), (*rwModel)(m))
	if m.direct {
		m.direct = false
	} else {
		vrt.LockPoint(vrt.OpWLock, unsafe.Pointer(m), (*rwModel)(m))
	}
	m.mu.Lock()
}

//go:norace
func (m *RWMutex) Unlock() {
	m.writer = false
	vrt.Released(unsafe.Pointer(m))
	m.mu.Unlock()
}

//go:norace
func (m *RWMutex) RLock() {
	if !vrt.LockPoint(vrt.OpRLock, unsafe.Pointer(m), (*rwModel)(m)) {
		m.mu.RLock()
		m.readers++
		return
	}
	m.mu.RLock()
}

//go:norace
func (m *RWMutex) RUnlock() {
	m.readers--
	vrt.Released(unsafe.Pointer(m))
	m.mu.RUnlock()
}

//go:norace
func (m *RWMutex) TryLock() bool {
	if m.writer || m.readers > 0 {
		return false
	}
	if !m.mu.TryLock() {
		return false
	}
	m.writer = true
	return true
}

//go:norace
func (m *RWMutex) TryRLock() bool {
	if m.writer || m.wwaiting > 0 {
		return false
	}
	if !m.mu.TryRLock() {
		return false
	}
	m.readers++
	return true
}

func (m *RWMutex) RLocker() Locker { return (*rlocker)(m) }

type rlocker RWMutex

func (r *rlocker) Lock()   { (*RWMutex)(r).RLock() }
func (r *rlocker) Unlock() { (*RWMutex)(r).RUnlock() }

// ---- Once -------------------------------------------------------------------

type Once struct {
	once    sync.Once
	running bool
	done    bool
}

type onceModel Once

//go:norace
func (o *onceModel) CanAcquire(vrt.OpKind) bool { return !o.running }

//go:norace
func (o *onceModel) Acquire(vrt.OpKind) bool { return false }

func (o *onceModel) Class() string { return "Once" }

//go:norace
func (o *Once) Do(f func()) {
	if o.done {
		o.once.Do(f) // already done: returns at once, gives the HB edge
		return
	}
	if !vrt.LockPoint(vrt.OpOnce, unsafe.Pointer(o), (*onceModel)(o)) {
		o.once.Do(f)
		o.done = true
		return
	}
	o.once.Do(func() {
		o.running = true
		defer o.finish()
		f()
	})
}

//go:norace
func (o *Once) finish() {
	o.running = false
	o.done = true
}

// ---- WaitGroup --------------------------------------------------------------

type WaitGroup struct {
	wg sync.WaitGroup
	n  int
}

type wgModel WaitGroup

//go:norace
func (w *wgModel) CanAcquire(vrt.OpKind) bool { return w.n == 0 }

//go:norace
func (w *wgModel) Acquire(vrt.OpKind) bool { return false }

func (w *wgModel) Class() string { return "WaitGroup" }

//go:norace
func (w *WaitGroup) Add(d int) {
	w.n += d
	w.wg.Add(d)
}

//go:norace
func (w *WaitGroup) Done() {
	w.n--
	w.wg.Done()
}

//go:norace
func (w *WaitGroup) Wait() {
	vrt.LockPoint(vrt.OpWGWait, unsafe.Pointer(w), (*wgModel)(w))
	w.wg.Wait()
}
