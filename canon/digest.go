// Package canon computes a canonical digest of the server's memory: a generic
// reflective walk (unexported fields included) that names no field of hagall,
// so refactoring cannot break it. Two histories are merged by the BFS only if
// the reference-model state AND this digest agree — an over-fine key costs
// time, it never hides a divergence.
package canon

import (
	"crypto/sha1"
	"fmt"
	"reflect"
	"regexp"
	"sort"
	"strings"
	"unsafe"

	"google.golang.org/protobuf/proto"
	"google.golang.org/protobuf/reflect/protoreflect"
)

var uuidRe = regexp.MustCompile(`^[0-9a-f]{8}-[0-9a-f]{4}-[0-9a-f]{4}-[0-9a-f]{4}-[0-9a-f]{12}$`)

type walker struct {
	sb    strings.Builder
	ptrs  map[unsafe.Pointer]int
	uuids map[string]int
	depth int
}

// walkable: struct types of hagall itself (and hagall-common's plain structs).
func walkable(t reflect.Type) bool {
	p := t.PkgPath()
	return strings.HasPrefix(p, "github.com/aukilabs/hagall")
}

func opaque(t reflect.Type) bool {
	p := t.PkgPath()
	switch {
	case p == "":
		return false
	case strings.HasPrefix(p, "verif/vrt"), p == "sync", p == "sync/atomic", p == "time", strings.HasPrefix(p, "crypto"), p == "math/big",
		strings.HasPrefix(p, "golang.org/x/net"), strings.HasPrefix(p, "net"), p == "context", strings.HasPrefix(p, "github.com/prometheus"):
		return true
	}
	return false
}

var protoMsgType = reflect.TypeOf((*proto.Message)(nil)).Elem()

func (w *walker) walk(v reflect.Value) {
	if !v.IsValid() {
		w.sb.WriteString("nil")
		return
	}
	if w.depth > 40 {
		w.sb.WriteString("<deep>")
		return
	}
	w.depth++
	defer func() { w.depth-- }()
	t := v.Type()
	if opaque(t) {
		w.sb.WriteString("<" + t.String() + ">")
		return
	}
	// protobuf messages: deterministic text form
	if t.Kind() == reflect.Pointer && t.Implements(protoMsgType) {
		if v.IsNil() {
			w.sb.WriteString("nil")
			return
		}
		if v.CanInterface() {
			w.protoMsg(v.Interface().(proto.Message))
			return
		}
		// unexported field: make it addressable-readable
		w.protoMsg(reflect.NewAt(t, unsafe.Pointer(v.UnsafeAddr())).Elem().Interface().(proto.Message))
		return
	}
	switch t.Kind() {
	case reflect.Bool:
		fmt.Fprint(&w.sb, v.Bool())
	case reflect.Int, reflect.Int8, reflect.Int16, reflect.Int32, reflect.Int64:
		fmt.Fprint(&w.sb, v.Int())
	case reflect.Uint, reflect.Uint8, reflect.Uint16, reflect.Uint32, reflect.Uint64, reflect.Uintptr:
		fmt.Fprint(&w.sb, v.Uint())
	case reflect.Float32, reflect.Float64:
		// payload values are the reference model's business (compared there up
		// to renaming); the digest is about structure
		w.sb.WriteString("f")
	case reflect.String:
		s := v.String()
		if uuidRe.MatchString(s) {
			n, ok := w.uuids[s]
			if !ok {
				n = len(w.uuids) + 1
				w.uuids[s] = n
			}
			fmt.Fprintf(&w.sb, "uuid#%d", n)
		} else {
			fmt.Fprintf(&w.sb, "%q", s)
		}
	case reflect.Pointer:
		if v.IsNil() {
			w.sb.WriteString("nil")
			return
		}
		p := v.UnsafePointer()
		if n, ok := w.ptrs[p]; ok {
			fmt.Fprintf(&w.sb, "&%d", n)
			return
		}
		w.ptrs[p] = len(w.ptrs) + 1
		fmt.Fprintf(&w.sb, "&%d=", len(w.ptrs))
		w.walk(v.Elem())
	case reflect.Interface:
		if v.IsNil() {
			w.sb.WriteString("nil")
			return
		}
		w.walk(v.Elem())
	case reflect.Struct:
		if !walkable(t) && t.PkgPath() != "" {
			w.sb.WriteString("<" + t.String() + ">")
			return
		}
		w.sb.WriteString(t.Name() + "{")
		for i := 0; i < t.NumField(); i++ {
			f := t.Field(i)
			fv := v.Field(i)
			switch f.Type.Kind() {
			case reflect.Chan, reflect.Func, reflect.UnsafePointer:
				continue
			}
			if opaque(f.Type) || (f.Type.Kind() == reflect.Pointer && opaque(f.Type.Elem())) {
				continue
			}
			if !fv.CanInterface() {
				if !fv.CanAddr() {
					// copy into an addressable value
					c := reflect.New(t).Elem()
					c.Set(v)
					fv = c.Field(i)
				}
				fv = reflect.NewAt(f.Type, unsafe.Pointer(fv.UnsafeAddr())).Elem()
			}
			w.sb.WriteString(f.Name + ":")
			w.walk(fv)
			w.sb.WriteString(",")
		}
		w.sb.WriteString("}")
	case reflect.Map:
		if v.IsNil() {
			w.sb.WriteString("nilmap")
			return
		}
		type kv struct {
			k string
			v reflect.Value
		}
		var kvs []kv
		it := v.MapRange()
		for it.Next() {
			kw := &walker{ptrs: w.ptrs, uuids: w.uuids}
			kw.walk(it.Key())
			kvs = append(kvs, kv{kw.sb.String(), it.Value()})
		}
		sort.Slice(kvs, func(i, j int) bool {
			if len(kvs[i].k) != len(kvs[j].k) {
				return len(kvs[i].k) < len(kvs[j].k)
			}
			return kvs[i].k < kvs[j].k
		})
		w.sb.WriteString("map[")
		for _, e := range kvs {
			w.sb.WriteString(e.k + ":")
			w.walk(e.v)
			w.sb.WriteString(",")
		}
		w.sb.WriteString("]")
	case reflect.Slice, reflect.Array:
		if t.Kind() == reflect.Slice && v.IsNil() {
			w.sb.WriteString("nilslice")
			return
		}
		if t.Elem().Kind() == reflect.Uint8 {
			w.sb.WriteString("bytes")
			return
		}
		w.sb.WriteString("[")
		for i := 0; i < v.Len(); i++ {
			w.walk(v.Index(i))
			w.sb.WriteString(",")
		}
		w.sb.WriteString("]")
	default:
		w.sb.WriteString("<" + t.Kind().String() + ">")
	}
}

// protoMsg renders a protobuf message without its payload fields (bytes,
// floats): ids, names, flags and client timestamps only.
func (w *walker) protoMsg(m proto.Message) {
	r := m.ProtoReflect()
	fds := r.Descriptor().Fields()
	w.sb.WriteString(string(r.Descriptor().Name()) + "{")
	for i := 0; i < fds.Len(); i++ {
		fd := fds.Get(i)
		if !r.Has(fd) {
			continue
		}
		switch fd.Kind() {
		case protoreflect.BytesKind, protoreflect.FloatKind, protoreflect.DoubleKind:
			continue
		case protoreflect.MessageKind:
			if fd.IsList() || fd.IsMap() {
				fmt.Fprintf(&w.sb, "%s:%v,", fd.Name(), r.Get(fd))
				continue
			}
			w.sb.WriteString(string(fd.Name()) + ":")
			w.protoMsg(r.Get(fd).Message().Interface())
			w.sb.WriteString(",")
		default:
			fmt.Fprintf(&w.sb, "%s:%v,", fd.Name(), r.Get(fd))
		}
	}
	w.sb.WriteString("}")
}

// Text renders the roots canonically (for debugging).
func Text(roots ...any) string {
	w := &walker{ptrs: map[unsafe.Pointer]int{}, uuids: map[string]int{}}
	for _, r := range roots {
		w.walk(reflect.ValueOf(r))
		w.sb.WriteString("\n")
	}
	return w.sb.String()
}

// Digest is a short hash of Text.
func Digest(roots ...any) string {
	return fmt.Sprintf("%x", sha1.Sum([]byte(Text(roots...))))[:16]
}
