#!/bin/bash
# runall.sh <tier>: every check once; summary in /tmp/runall.<tier>.txt (developer convenience)
tier=${1:-quick}
out=/tmp/runall.$tier.txt; : > $out
for i in $(seq -w 1 20); do
  s=$(date +%s)
  ./run.sh check C$i $tier > /tmp/runall.C$i.$tier.log 2>&1; rc=$?
  e=$(( $(date +%s) - s ))
  echo "C$i exit=$rc ${e}s $(grep -c ^VIOLATION /tmp/runall.C$i.$tier.log) viol $(grep -c ^KNOWN /tmp/runall.C$i.$tier.log) known | $(grep "^C$i $tier" /tmp/runall.C$i.$tier.log | cut -c1-160)" | tee -a $out
done
python3-vt - <<'PY'
import json,jsonschema,glob
sch=json.load(open('/root/.vp/EVIDENCE.schema.json'))
for f in sorted(glob.glob('/verif/evidence/*.json')):
    try: jsonschema.validate(json.load(open(f)),sch)
    except Exception as e: print("INVALID",f,str(e)[:200])
print("evidence validated")
PY
