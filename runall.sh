#!/bin/bash
# runall.sh <tier> [Cxx ...]: every (or the named) check once; summary in /tmp/runall.<tier>.txt (developer convenience)
tier=${1:-quick}
shift
props=${*:-$(seq -w 1 20)}
out=/tmp/runall.$tier.txt; : > $out
for i in $props; do
  i=${i#C}
  s=$(date +%s)
  ./run.sh check C$i $tier > /tmp/runall.C$i.$tier.log 2>&1; rc=$?
  e=$(( $(date +%s) - s ))
  echo "C$i exit=$rc ${e}s $(grep -c ^VIOLATION /tmp/runall.C$i.$tier.log) viol $(grep -c ^KNOWN /tmp/runall.C$i.$tier.log) known | $(grep "^C$i $tier" /tmp/runall.C$i.$tier.log | cut -c1-160)" | tee -a $out
done
python3-vt - <<'PY'
import json,jsonschema,glob
sch=json.load(open('/root/.vp/EVIDENCE.schema.json'))
for f in sorted(glob.glob('/verif/evidence/*.json')):
    try: jsonschema.validate(json.load(open(f)),sch)
    except Exception as e: print("INVALID",f,str(e)[:200])
print("evidence validated")
PY
