package world

import (
	"bufio"
	"context"
	"crypto/ecdsa"
	"encoding/base64"
	"encoding/binary"
	"encoding/json"
	"fmt"
	"net"
	"net/http"
	"strings"
	"time"

	"github.com/aukilabs/go-tooling/pkg/logs"
	"github.com/aukilabs/hagall-common/messages/hagallpb"
	"github.com/aukilabs/hagall-common/ncsclient"
	hcws "github.com/aukilabs/hagall-common/websocket"
	"github.com/aukilabs/hagall/featureflag"
	"github.com/aukilabs/hagall/models"
	"github.com/aukilabs/hagall/modules"
	"github.com/aukilabs/hagall/modules/dagaz"
	"github.com/aukilabs/hagall/modules/odal"
	"github.com/aukilabs/hagall/modules/vikja"
	hws "github.com/aukilabs/hagall/websocket"
	"golang.org/x/net/websocket"
	"google.golang.org/protobuf/proto"
	"google.golang.org/protobuf/types/known/timestamppb"

	"verif/vrt"
)

func init() {
	logs.SetLogger(func(logs.Entry) {})
	logs.SetLevel(logs.ErrorLevel)
	// hagall-common caches the printed name of every message type number in a
	// process-wide, mutex-guarded table on first use; filling it here keeps the
	// number of scheduling points of an execution independent of what earlier
	// executions happened to log
	for n := int32(-1); n <= 1000; n++ {
		hcws.Msg{Type: hagallpb.MsgType(n)}.TypeString()
	}
	hcws.Msg{Type: hagallpb.MsgType(2147483647)}.TypeString()
}

type Config struct {
	Modules         []string // subset of vikja, odal, dagaz (in that order, as cmd/main.go)
	Flags           []string
	Prod            bool // HandlerWithLogs + HandlerWithMetrics, as cmd/main.go
	IdleTimeout     time.Duration
	SyncInterval    time.Duration
	FrameDuration   time.Duration
	SummaryInterval time.Duration
	ReceiptCap      int
	PrivateKey      *ecdsa.PrivateKey
	NowTick         int64
	ClientID        string
}

func (c *Config) defaults() {
	if c.IdleTimeout == 0 {
		c.IdleTimeout = 5 * time.Minute
	}
	if c.SyncInterval == 0 {
		c.SyncInterval = 24 * time.Hour
	}
	if c.FrameDuration == 0 {
		c.FrameDuration = 15 * time.Millisecond
	}
	if c.SummaryInterval == 0 {
		c.SummaryInterval = 24 * time.Hour
	}
	if c.ReceiptCap == 0 {
		c.ReceiptCap = 128
	}
}

type discovery struct{}

func (discovery) ServerID() string { return "srv" }

type World struct {
	Cfg         Config
	S           *vrt.Sched
	Store       *models.SessionStore
	Clients     []*Client
	ReceiptChan chan ncsclient.ReceiptPayload
	Ctx         context.Context
	Cancel      context.CancelFunc
	ts          int64
	// DecorateHandler, if set, wraps each connection's handler (innermost
	// RealtimeHandler given) before the prod decoration; used by oracles.
	finished bool
	// DaemonLabels: label prefixes of process-wide worker threads.
	DaemonLabels []string
	// Panics: goroutines that panicked during the execution (filled by Finish).
	Panics []ThreadPanic
}

// ThreadPanic describes a panic of a server goroutine. Label "handler" = the
// connection handler itself (recovered by net/http), anything else = a
// goroutine whose panic would crash the process.
type ThreadPanic struct {
	Label, Value, Stack string
}

// New creates a world and installs its scheduler as the active one.
func New(cfg Config, ch vrt.Chooser) *World {
	cfg.defaults()
	w := &World{Cfg: cfg}
	w.S = vrt.NewSched(ch)
	w.S.Clock().NowTick = cfg.NowTick
	vrt.ResetClasses()
	vrt.S = w.S
	w.Store = &models.SessionStore{DiscoveryService: discovery{}}
	w.ReceiptChan = make(chan ncsclient.ReceiptPayload, cfg.ReceiptCap)
	w.Ctx, w.Cancel = context.WithCancel(context.Background())
	w.DaemonLabels = []string{"receipt.ReceiptHandler.HandleReceipts", "receipt-start"}
	return w
}

func (w *World) newModules() []modules.Module {
	var ms []modules.Module
	for _, n := range w.Cfg.Modules {
		switch n {
		case "vikja":
			ms = append(ms, &vikja.Module{})
		case "odal":
			ms = append(ms, &odal.Module{})
		case "dagaz":
			ms = append(ms, &dagaz.Module{})
		}
	}
	return ms
}

// spy counts HandleDisconnect calls (teardown exactly once).
type spy struct {
	hws.Handler
	c *Client
}

//go:norace
func (s *spy) HandleDisconnect(err error) {
	s.c.Disconnects++
	if err != nil {
		s.c.DisconnectErr = err.Error()
	}
	s.Handler.HandleDisconnect(err)
}

type Client struct {
	W      *World
	Flags  []string
	Idx    int
	Name   string
	Pipe   *Pipe
	Thread *vrt.Thread
	RH     *hws.RealtimeHandler

	inbuf       []byte
	handshook   bool
	Log         []*Recv
	taken       int
	nextReq     uint32
	Closed      bool
	CloseFrames int

	Disconnects     int
	DisconnectErr   string
	HandlerEntered  bool
	HandlerReturned bool
	HandlerPanic    any
	HandlerPanicStk string
}

type fakeRW struct {
	c   srvConn
	hdr http.Header
}

func (f *fakeRW) Header() http.Header         { return f.hdr }
func (f *fakeRW) Write(b []byte) (int, error) { return len(b), nil }
func (f *fakeRW) WriteHeader(int)             {}
func (f *fakeRW) Hijack() (net.Conn, *bufio.ReadWriter, error) {
	return f.c, bufio.NewReadWriter(bufio.NewReader(f.c), bufio.NewWriter(f.c)), nil
}

// Connect opens a new client connection; its server thread is spawned but
// runs only when the scheduler is stepped.
func (w *World) Connect(name string) *Client { return w.ConnectWith(name, w.Cfg.Flags) }

// ConnectWith opens a connection whose handler gets the given feature flags.
func (w *World) ConnectWith(name string, flags []string) *Client {
	c := &Client{W: w, Idx: len(w.Clients), Name: name, Pipe: NewPipe(name), Flags: flags}
	w.Clients = append(w.Clients, c)
	req, _ := http.NewRequest("GET", "http://srv/", nil)
	req.Header.Set("Upgrade", "websocket")
	req.Header.Set("Connection", "Upgrade")
	req.Header.Set("Sec-WebSocket-Key", "dGhlIHNhbXBsZSBub25jZQ==")
	req.Header.Set("Sec-WebSocket-Version", "13")
	if w.Cfg.ClientID != "" {
		req.Header.Set("posemesh-client-id", w.Cfg.ClientID)
	}
	// every connection presents a token (the world's handshake admits everybody);
	// its app key - two of them, alternating - labels the connection's metrics and
	// the sessions it creates
	req.Header.Set("Authorization", "Bearer "+appToken(fmt.Sprintf("app-%d", c.Idx%2)))
	rw := &fakeRW{c: srvConn{c.Pipe}, hdr: http.Header{}}
	c.Thread = w.S.Spawn("conn:"+name, func() { w.serve(c, rw, req) })
	return c
}

//go:norace
func (c *Client) markEntered() { c.HandlerEntered = true }

//go:norace
func (c *Client) markReturned(p any, stk string) {
	c.HandlerReturned = true
	c.HandlerPanic = p
	c.HandlerPanicStk = stk
}

func (w *World) serve(c *Client, rw http.ResponseWriter, req *http.Request) {
	// net/http's conn.serve recovers handler panics; so do we, and record it.
	defer func() {
		r := recover()
		if r != nil && vrt.IsAbort(r) {
			panic(r)
		}
		stk := ""
		if r != nil {
			stk = vrt.Stack()
		}
		c.markReturned(r, stk)
	}()
	srv := websocket.Server{
		Handshake: func(*websocket.Config, *http.Request) error { return nil },
		Handler: func(conn *websocket.Conn) {
			defer conn.Close()
			c.markEntered()
			rh := &hws.RealtimeHandler{
				ClientSyncClockInterval: w.Cfg.SyncInterval,
				ClientIdleTimeout:       w.Cfg.IdleTimeout,
				FrameDuration:           w.Cfg.FrameDuration,
				Sessions:                w.Store,
				Modules:                 w.newModules(),
				FeatureFlags:            featureflag.New(c.Flags),
				ReceiptChan:             w.ReceiptChan,
				PrivateKey:              w.Cfg.PrivateKey,
			}
			c.setRH(rh)
			var h hws.Handler = &spy{Handler: rh, c: c}
			if w.Cfg.Prod {
				h = hws.HandlerWithLogs(h, w.Cfg.SummaryInterval)
				h = hws.HandlerWithMetrics(h, "http://srv")
			}
			defer h.Close()
			hws.Handle(w.Ctx, conn, h)
		},
	}
	srv.ServeHTTP(rw, req)
}

//go:norace
func (c *Client) setRH(rh *hws.RealtimeHandler) { c.RH = rh }

// ---- wire -------------------------------------------------------------------

// Frame builds a masked hybi frame (mask key zero) with the given opcode.
func Frame(opcode byte, payload []byte) []byte {
	var b []byte
	b = append(b, 0x80|opcode)
	n := len(payload)
	switch {
	case n < 126:
		b = append(b, 0x80|byte(n))
	case n < 65536:
		b = append(b, 0x80|126, byte(n>>8), byte(n))
	default:
		b = append(b, 0x80|127)
		var l [8]byte
		binary.BigEndian.PutUint64(l[:], uint64(n))
		b = append(b, l[:]...)
	}
	b = append(b, 0, 0, 0, 0)
	return append(b, payload...)
}

// NextTS returns a fresh logical timestamp; every request carries a unique
// one, which hagall copies into OriginTimestamp of the relays it causes.
func (w *World) NextTS() *timestamppb.Timestamp {
	w.ts++
	return &timestamppb.Timestamp{Seconds: 1_000_000 + w.ts}
}

func (c *Client) NextReqID() uint32 {
	c.nextReq++
	return uint32(c.Idx+1)*100000 + c.nextReq
}

// SendMsg writes one protobuf message as a binary frame. Does not run the
// scheduler.
func (c *Client) SendMsg(m proto.Message) {
	b, err := proto.Marshal(m)
	if err != nil {
		panic(err)
	}
	c.Pipe.ClientWrite(Frame(2, b))
}

func (c *Client) SendRaw(b []byte) { c.Pipe.ClientWrite(b) }

func (c *Client) Close() {
	c.Closed = true
	c.Pipe.ClientClose()
}

// Recv is one message received by a client.
type Recv struct {
	Type   int32
	Msg    proto.Message
	Raw    []byte
	Opcode byte
}

// pump parses what the server wrote since the last call.
func (c *Client) pump() {
	c.inbuf = append(c.inbuf, c.Pipe.ClientTake()...)
	if !c.handshook {
		for i := 0; i+3 < len(c.inbuf); i++ {
			if string(c.inbuf[i:i+4]) == "\r\n\r\n" {
				c.inbuf = c.inbuf[i+4:]
				c.handshook = true
				break
			}
		}
		if !c.handshook {
			return
		}
	}
	for {
		b := c.inbuf
		if len(b) < 2 {
			return
		}
		op := b[0] & 0x0f
		n := int(b[1] & 0x7f)
		off := 2
		switch n {
		case 126:
			if len(b) < 4 {
				return
			}
			n = int(b[2])<<8 | int(b[3])
			off = 4
		case 127:
			if len(b) < 10 {
				return
			}
			n = int(binary.BigEndian.Uint64(b[2:10]))
			off = 10
		}
		if b[1]&0x80 != 0 {
			panic("server sent a masked frame")
		}
		if len(b) < off+n {
			return
		}
		payload := append([]byte(nil), b[off:off+n]...)
		c.inbuf = b[off+n:]
		r := &Recv{Raw: payload, Opcode: op, Type: -1}
		if op == 8 {
			c.CloseFrames++ // the server's close handshake, not a message
			continue
		}
		if op == 2 {
			r.Type, r.Msg = Decode(payload)
		}
		c.Log = append(c.Log, r)
	}
}

// Take returns the messages received since the previous Take.
func (c *Client) Take() []*Recv {
	c.pump()
	out := c.Log[c.taken:]
	c.taken = len(c.Log)
	return out
}

// ResetTaken makes the next Take return the whole (possibly edited) log.
func (c *Client) ResetTaken() { c.taken = 0 }

// All returns everything received so far.
func (c *Client) All() []*Recv {
	c.pump()
	return c.Log
}

// ---- running ----------------------------------------------------------------

// Run steps the scheduler until no thread is enabled.
func (w *World) Run() { w.S.RunQuiescent() }

// Tick advances the virtual clock and runs to quiescence.
func (w *World) Tick(d time.Duration) {
	w.S.Advance(d)
	w.S.RunQuiescent()
}

// Leftover describes a thread that did not finish.
type Leftover struct {
	Label string
	Desc  string
}

// Finish closes every client, lets the server tear everything down, and
// reports the threads that failed to finish. Afterwards no goroutine of this
// world is alive.
func (w *World) Finish() (left []Leftover) {
	if w.finished {
		return nil
	}
	w.finished = true
	for _, c := range w.Clients {
		if !c.Closed {
			c.Close()
		}
	}
	w.S.RunQuiescent()
	// threads that should have finished by now: everything except process-wide
	// workers, which legitimately live until server shutdown
	isDaemon := func(label string) bool {
		for _, d := range w.DaemonLabels {
			if strings.HasPrefix(label, d) {
				return true
			}
		}
		return false
	}
	stuck := w.S.Live()
	for _, t := range stuck {
		if !isDaemon(t.Label) {
			left = append(left, Leftover{t.Label, t.Describe()})
		}
	}
	// server shutdown: process-wide workers must end now
	w.Cancel()
	if len(left) == 0 {
		w.S.RunQuiescent()
		for _, t := range w.S.Live() {
			left = append(left, Leftover{t.Label, "after server shutdown: " + t.Describe()})
		}
	}
	if len(w.S.Live()) > 0 {
		w.S.Abort()
	}
	w.S.Join()
	// a panic on a goroutine outside net/http's recovery kills the process in production
	for _, t := range w.S.Threads {
		if t.Panic != nil {
			lab := t.Label
			if strings.HasPrefix(lab, "conn:") {
				lab = "conn"
			}
			w.Panics = append(w.Panics, ThreadPanic{Label: lab, Value: fmt.Sprint(t.Panic), Stack: t.PanicStk})
		}
	}
	for _, c := range w.Clients {
		if c.HandlerPanic != nil {
			w.Panics = append(w.Panics, ThreadPanic{Label: "handler", Value: fmt.Sprint(c.HandlerPanic), Stack: c.HandlerPanicStk})
		}
	}
	vrt.S = nil
	return left
}

func (w *World) String() string { return fmt.Sprintf("world(%d clients)", len(w.Clients)) }

// appToken: an unsigned-looking JWT carrying an app key (hagall reads the claim
// without verifying; verification is the handshake's business).
func appToken(appKey string) string {
	enc := func(v any) string {
		b, _ := json.Marshal(v)
		return base64.RawURLEncoding.EncodeToString(b)
	}
	return enc(map[string]any{"alg": "HS256", "typ": "JWT"}) + "." + enc(map[string]any{"app_key": appKey, "iss": "HDS"}) + ".c2ln"
}
