// Package world brings up the real hagall server, wired as in cmd/main.go, on
// in-memory connections under the controlled scheduler, and provides scripted
// clients that speak the wire protocol (hybi frames + protobuf).
package world

import (
	"errors"
	"io"
	"net"
	"time"

	"verif/vrt"
)

// Pipe is the in-memory duplex connection between one scripted client and the
// server-side net.Conn handed to x/net/websocket through http.Hijacker.
// Every accessor is //go:norace: the harness (controller goroutine) and the
// server threads touch it strictly alternately, ordered by the scheduler,
// which deliberately creates no happens-before edges.
type Pipe struct {
	Name string

	toSrv     []byte
	cliClosed bool
	rdErr     error

	fromSrv   []byte
	stalled   bool
	wrErr     error
	srvClosed bool
	Closes    int // number of Close calls on the server side

	rw pipeRead
	ww pipeWrite
}

var errInjected = errors.New("injected connection error")

type pipeRead struct{ p *Pipe }
type pipeWrite struct{ p *Pipe }

//go:norace
func (r *pipeRead) Ready() bool {
	p := r.p
	return len(p.toSrv) > 0 || p.cliClosed || p.rdErr != nil || p.srvClosed
}
func (r *pipeRead) WaitName() string { return "conn-read:" + r.p.Name }

//go:norace
func (w *pipeWrite) Ready() bool {
	p := w.p
	// a write to a peer that has gone away fails (EPIPE / RST) even if the peer
	// had stopped reading before
	return !p.stalled || p.srvClosed || p.wrErr != nil || p.cliClosed
}
func (w *pipeWrite) WaitName() string { return "conn-write:" + w.p.Name }

func NewPipe(name string) *Pipe {
	p := &Pipe{Name: name}
	p.rw.p = p
	p.ww.p = p
	return p
}

// ---- server side (net.Conn) -------------------------------------------------

type srvConn struct{ p *Pipe }

//go:norace
func (c srvConn) Read(b []byte) (int, error) {
	p := c.p
	vrt.WaitOn(&p.rw)
	if p.srvClosed {
		return 0, net.ErrClosed
	}
	if len(p.toSrv) > 0 {
		n := copy(b, p.toSrv)
		p.toSrv = p.toSrv[n:]
		return n, nil
	}
	if p.rdErr != nil {
		return 0, p.rdErr
	}
	if p.cliClosed {
		return 0, io.EOF
	}
	return 0, errors.New("pipe: read woke up with nothing to read")
}

//go:norace
func (c srvConn) Write(b []byte) (int, error) {
	p := c.p
	vrt.WaitOn(&p.ww)
	if p.srvClosed {
		return 0, net.ErrClosed
	}
	if p.wrErr != nil {
		return 0, p.wrErr
	}
	if p.cliClosed {
		// peer is gone: a TCP write would eventually fail with EPIPE/RST
		return 0, errors.New("write: broken pipe")
	}
	p.fromSrv = append(p.fromSrv, b...)
	return len(b), nil
}

//go:norace
func (c srvConn) Close() error {
	p := c.p
	p.Closes++
	if p.srvClosed {
		return net.ErrClosed
	}
	p.srvClosed = true
	return nil
}

type pipeAddr string

func (a pipeAddr) Network() string { return "pipe" }
func (a pipeAddr) String() string  { return string(a) }

func (c srvConn) LocalAddr() net.Addr                { return pipeAddr("server") }
func (c srvConn) RemoteAddr() net.Addr               { return pipeAddr(c.p.Name) }
func (c srvConn) SetDeadline(t time.Time) error      { return nil }
func (c srvConn) SetReadDeadline(t time.Time) error  { return nil }
func (c srvConn) SetWriteDeadline(t time.Time) error { return nil }

// ---- client side (harness) --------------------------------------------------

//go:norace
func (p *Pipe) ClientWrite(b []byte) { p.toSrv = append(p.toSrv, b...) }

//go:norace
func (p *Pipe) ClientClose() { p.cliClosed = true }

//go:norace
func (p *Pipe) InjectReadError() { p.rdErr = errInjected }

//go:norace
func (p *Pipe) InjectWriteError() { p.wrErr = errInjected }

//go:norace
func (p *Pipe) SetStalled(v bool) { p.stalled = v }

//go:norace
func (p *Pipe) ServerClosed() bool { return p.srvClosed }

//go:norace
func (p *Pipe) Pending() int { return len(p.toSrv) }

// ClientTake returns and consumes everything the server has written so far.
//
//go:norace
func (p *Pipe) ClientTake() []byte {
	b := p.fromSrv
	p.fromSrv = nil
	return b
}
