package world

import (
	"github.com/aukilabs/hagall-common/messages/dagazpb"
	"github.com/aukilabs/hagall-common/messages/hagallpb"
	"github.com/aukilabs/hagall-common/messages/odalpb"
	"github.com/aukilabs/hagall-common/messages/vikjapb"
	"google.golang.org/protobuf/proto"
)

var ctors = map[int32]func() proto.Message{
	0:  func() proto.Message { return &hagallpb.ErrorResponse{} },
	1:  func() proto.Message { return &hagallpb.SyncClock{} },
	2:  func() proto.Message { return &hagallpb.SessionState{} },
	3:  func() proto.Message { return &hagallpb.ParticipantJoinRequest{} },
	4:  func() proto.Message { return &hagallpb.ParticipantJoinResponse{} },
	5:  func() proto.Message { return &hagallpb.ParticipantJoinBroadcast{} },
	7:  func() proto.Message { return &hagallpb.ParticipantLeaveBroadcast{} },
	9:  func() proto.Message { return &hagallpb.EntityAddResponse{} },
	10: func() proto.Message { return &hagallpb.EntityAddBroadcast{} },
	12: func() proto.Message { return &hagallpb.EntityDeleteResponse{} },
	13: func() proto.Message { return &hagallpb.EntityDeleteBroadcast{} },
	15: func() proto.Message { return &hagallpb.EntityUpdatePoseBroadcast{} },
	17: func() proto.Message { return &hagallpb.CustomMessageBroadcast{} },
	19: func() proto.Message { return &hagallpb.EntityComponentTypeAddResponse{} },
	21: func() proto.Message { return &hagallpb.EntityComponentTypeGetNameResponse{} },
	23: func() proto.Message { return &hagallpb.EntityComponentTypeGetIdResponse{} },
	25: func() proto.Message { return &hagallpb.EntityComponentAddResponse{} },
	26: func() proto.Message { return &hagallpb.EntityComponentAddBroadcast{} },
	28: func() proto.Message { return &hagallpb.EntityComponentDeleteResponse{} },
	29: func() proto.Message { return &hagallpb.EntityComponentDeleteBroadcast{} },
	31: func() proto.Message { return &hagallpb.EntityComponentUpdateBroadcast{} },
	33: func() proto.Message { return &hagallpb.EntityComponentListResponse{} },
	35: func() proto.Message { return &hagallpb.EntityComponentTypeSubscribeResponse{} },
	37: func() proto.Message { return &hagallpb.EntityComponentTypeUnsubscribeResponse{} },
	38: func() proto.Message { return &hagallpb.Response{} }, // PING_REQUEST sent by the server (signed latency)
	39: func() proto.Message { return &hagallpb.Response{} },
	41: func() proto.Message { return &hagallpb.ReceiptResponse{} },
	43: func() proto.Message { return &hagallpb.SignedLatencyResponse{} },

	100: func() proto.Message { return &vikjapb.State{} },
	102: func() proto.Message { return &vikjapb.EntityActionResponse{} },
	103: func() proto.Message { return &vikjapb.EntityActionBroadcast{} },
	200: func() proto.Message { return &odalpb.State{} },
	202: func() proto.Message { return &odalpb.AssetInstanceAddResponse{} },
	203: func() proto.Message { return &odalpb.AssetInstanceAddBroadcast{} },
	302: func() proto.Message { return &dagazpb.DagazGetGroundPlaneResponse{} },
	304: func() proto.Message { return &dagazpb.DagazGetRegionResponse{} },
	306: func() proto.Message { return &dagazpb.DagazGetDebugInfoResponse{} },
}

// Decode decodes a server-to-client payload by its type number. Unknown
// numbers yield the generic header message.
func Decode(b []byte) (int32, proto.Message) {
	var hdr hagallpb.Msg
	if err := (proto.UnmarshalOptions{DiscardUnknown: true}).Unmarshal(b, &hdr); err != nil {
		return -1, nil
	}
	t := int32(hdr.Type)
	if c, ok := ctors[t]; ok {
		m := c()
		if err := proto.Unmarshal(b, m); err != nil {
			return t, nil
		}
		return t, m
	}
	return t, &hdr
}
