#!/bin/bash
# mutant.sh <Cxx/A> <prop> [tier] : apply seeded patch to /repo, run the check, revert.
set -u
M=$1; P=$2; T=${3:-quick}
D=/tmp/seedout/$M
[ -d /verif/seeded/${M%/*}-${M#*/} ] && D=/verif/seeded/${M%/*}-${M#*/}
cd /repo && git apply --check $D/patch.diff 2>/dev/null || { echo "PATCH DOES NOT APPLY: $M"; exit 3; }
git apply $D/patch.diff
cd /verif && timeout 1800 ./run.sh check $P $T > /tmp/mut.out 2>&1; rc=$?
cd /repo && git checkout -- . 
echo "$M on $P ($T): exit=$rc  $(grep -c ^VIOLATION /tmp/mut.out) violation lines"
grep -A2 "^VIOLATION" /tmp/mut.out | head -${LINES_SHOWN:-6} | cut -c1-300
exit 0
