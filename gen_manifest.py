#!/usr/bin/env python3
"""Generates MANIFEST.json from the table below (kept in one place so that it stays valid)."""
import json
claimed = {
 "C01": ("S1 explicit-state BFS over request histories vs a reference model + S2 preemption-bounded schedule DFS + back-pressure / join-answered histories, on the real server",
         "Every history up to the depth over the family alphabets (3 connections, modules on/off) executed on the real server and compared step by step with the reference model; every member's replica (built only from received bytes) = the state a probe joiner is handed = the model in every reached state; every lock/channel-granularity interleaving (<=1 preemption quick, <=2 thorough) of ~85 request pairs/triples on a shared session ends with view = probe for every member.", "6"),
 "C02": ("S1 history BFS vs reference model (exact recipient multisets per event) + S2 schedule DFS (exactly-once by origin timestamp)",
         "Per event the multiset of messages each connection receives must equal the model's expectation (no duplicate, no echo, nothing after a refusal); under concurrency each accepted change reaches every member-throughout exactly once and never its sender, in every explored interleaving.", "6"),
 "C03": ("S1 history BFS over two-session families with coinciding ids vs a model without cross-session channel + S2 blocks with a switching member",
         "Families with coinciding participant/entity/type ids, raw ids valid only in the other session, unjoined connections, reused session ids; any message or state change caused across sessions is a mismatch; under concurrency nothing of the old session is delivered after the answer to a switch.", "6"),
 "C04": ("S1 history BFS vs reference model with acceptable-outcome sets per request",
         "Every request kind x boundary ids/names x prior history up to the depth: exactly one answer with an acceptable code, nothing to anyone else, refused => model state (and probe) unchanged, unjoined session-scoped requests never executed.", "6"),
 "C05": ("S1 history BFS vs reference model over every (requester, entity) + S2 concurrent id allocation (plain and -race build)",
         "Delete / pose / asset by owner and non-owner (incl. after the owner left, never-issued ids) against the model; participant ids never reissued (also under concurrent joins, atomics included as scheduling points).", "6"),
 "C06": ("S1 history BFS vs reference model (departure rule) + S2 departure-vs-join interleavings",
         "Close and switch departures with persistent/non-persistent entities and attachments (components, actions, assets, subscriptions) against the model and a probe; concurrent departure vs join interleavings end with the joiner's view = probe.", "6"),
 "C07": ("S2 schedule DFS (preemption-bounded, exhaustive) over the real server + S1 lifecycle BFS",
         "Every lock/channel-granularity interleaving (<=2 preemptions quick, <=3 thorough) of the named join/leave/create races plus membership histories; registry/gauge/worker/no-orphan invariants and a probe joiner in every final state.", "6"),
 "C08": ("bounded-exhaustive input enumeration at every life-cycle point + S3 fault placement (close / error / stall / timers) at every scheduling point + S2/S1 blocks, on the controlled runtime (deadlock / panic / teardown oracles, watchdog for non-termination)",
         "Every message type with every optional field absent or at a boundary, byte-level frame mutations, bursts of failing requests, idle timeout under a virtual clock, at 4 life-cycle points in the production decoration: no goroutine panics, no deadlock, the connection is ended exactly once through the normal path or stays served, witness undisturbed, process alive.", "6"),
 "C09": ("S2 schedule DFS executed in the -race build (happens-before race detector per explored schedule) and in the plain build; lock-order graph; porcupine linearizability of the store",
         "All blocks of the catalogue in the production decoration: race reports between hagall threads at hagall access sites on every explored schedule, deadlock states, lock-order cycles, split module state, plus linearizability of the component store API under all 2-3 thread interleavings.", "6"),
 "C10": ("exhaustive operation-sequence enumeration of the id source (all map orders) + S2 concurrent allocations (plain and -race build) + S1 families",
         "All New/Reuse sequences up to depth 8 (9 thorough) with every map iteration order, 2-3 threads under the schedule DFS, and ids seen at system level (responses, states) in histories and concurrent blocks.", "6"),
 "C11": ("S3 deviation-bounded search: environment actions (ticks, joins, closes) placed at every scheduling point + owner threads interleaved; S1 BFS for the sequential semantics",
         "Pose scripts with sequence numbers over two entities, deletes, a joiner, switch, close, dropped updates; tick placement relative to arrival and consumption enumerated up to the deviation bound; order, latest-arrives, none-after-delete, newcomer-gets-latest oracles.", "6"),
 "C12": ("S1 history BFS vs a map model + S2 concurrent add/add, update vs removal and type registration",
         "Component requests with ids that exist / never existed / no longer exist, type names, look-ups; map model incl. cascade on entity removal; concurrent duplicate adds and registrations.", "6"),
 "C13": ("S1 history BFS (components, subscriptions) vs required/allowed recipient sets + S2 unsubscribe-vs-update, change vs departure of the only subscriber",
         "Subscribe/unsubscribe/leave/component changes by three participants over two types; update relays to subscribers only, none after the answer to an unsubscribe in any interleaving.", "6"),
 "C14": ("bounded-exhaustive input product executed on the real server vs the model + S2/S3 join-vs-relay and back-pressure histories",
         "All ordered recipient lists (<=4, thorough <=5, over members, sender, unknown, other-session id; plus a 600-entry list) x body lengths {0,1,10236..10244} x byte patterns, sessions of 1-4 members with a second live session.", "6"),
 "C15": ("bounded-exhaustive token x carrier product x explicit-state machine of the server's secret, in-process and on the real binary + exhaustive interleavings of a request with a re-registration / a second request (plain and -race build)",
         "42 token classes x 3 carriers (+27 combinations) x every sequence <=3 of register-A/register-B/unregister on the exported wrappers, and on the binary built from /repo/cmd registered by a harness-owned discovery service (unregistered, secret 1, lapsed, secret 2); independent HMAC reference verifier.", "6"),
 "C16": ("S1 history BFS vs last-writer-wins model + S2/S3 action-vs-join blocks",
         "Actions with timestamps t0<t1 (same second) <t2, zero, missing; names; own/foreign/unknown entities; assets; deletes, departures by close and switch, late joiner; model + probe (VIKJA_STATE/ODAL_STATE).", "6"),
 "C17": ("all 1024 flag subsets x covering histories + S1 families under flags, expectation = flag-free model minus the flagged classes",
         "Per connection the stream must equal the reference expectation minus the classes the set flags name; responses identical; a flag-free probe is handed the model's state; unknown names no effect.", "6"),
 "C18": ("exhaustive enumeration of client behaviour sequences under a virtual clock + map-order exploration + restart-vs-ping-answer interleavings (plain and -race build)",
         "Every behaviour sequence <=7 (8 thorough) after a start with n in {3,4}; iteration-count/wallet/joined product; every map iteration order for the statistics; signature recovery, binding, recomputed statistics, refusal of illegitimate answers.", "6"),
 "C19": ("bounded-exhaustive triples (singles, ordered pairs, thorough: ordered triples) x service behaviours (incl. outage then recovery) + S3 interleavings of submitters and forwarder",
         "20 triple classes, credit service {200,500,error,never}, queue capacity {1,2,128}; forwarded <=> well-formed (go-ethereum primitives as reference) and accepted, once, unchanged; one answer; no main loop ever waits on the queue.", "6"),
 "C20": ("explicit-state BFS over insertion sequences of the real grid (three lattices) + exact-arithmetic (math/big) primitive references + S1 session-level families + S2 departure-vs-join / insert-vs-query blocks",
         "Grid built as the module builds it, lattice alphabets (100 and 643 quads), depth 2-3: index completeness invariants in every reached state; primitives over the full product of a float32 alphabet; samples shared/retained across joins and leaves.", "6"),
}
NA = {}
props = [json.loads(l) for l in open("/verif/properties.jsonl")]
checks = []
for p in props:
    pid = p["id"]
    if pid not in claimed: continue
    tech, text, sec = claimed[pid]
    checks.append({
        "property_id": pid,
        "quick_cmd": f"./run.sh check {pid} quick",
        "thorough_cmd": f"./run.sh check {pid} thorough",
        "evidence_file": f"/verif/evidence/{pid}.json",
        "replay_cmd_template": "./run.sh replay {path}",
        "engine": "vrt",
        "level_claimed": {"category": "model_checking", "text": text, "design_ref": f"DESIGN.md section {sec} ({pid})"},
        "level_note": "Trusted: the vinstr source rewriter (sync/time/chan/select/go/map-range -> scheduler hooks), the vrt scheduler, the in-memory pipe standing in for TCP, the bounds stated in the evidence file; scheduling points only at synchronisation operations.",
        "technique": tech,
    })
na = [{"property_id": p["id"], "reason": NA.get(p["id"], "check not built yet in this session; planned (see DESIGN.md section 6)")} for p in props if p["id"] not in claimed]
m = {
 "version": 1,
 "setup_cmd": "./run.sh setup",
 "hooks": {"guard": "verif", "enable": "no hooks are committed to /repo: ./run.sh rewrites the current /repo sources (cmd/vinstr, go/ast) into /verif/.build/overlay and builds with `go build -overlay ... ` (GODEBUG=goindex=0)",
           "baseline_off_cmd": "cd /repo && GOFLAGS=-mod=mod GOPROXY=off GOSUMDB=off GOTOOLCHAIN=local go test -vet=off -count=1 -timeout 25m ./...",
           "source_commits": [], "add_only": True},
 "engines": [{"name": "vrt", "path": "/verif/vrt", "serves_properties": sorted(claimed), "kind_free_text": "hand-written controlled cooperative scheduler + deviation-bounded stateless DFS and explicit-state BFS over the real, AST-instrumented hagall sources"}],
 "checks": checks,
 "not_applicable": na,
 "notes": "All checks rebuild from /repo's working tree on every invocation. Exit 0 held / 1 VIOLATION / 2 cannot build or engine error.",
}
json.dump(m, open("/verif/MANIFEST.json", "w"), indent=1)
print("claimed", sorted(claimed), "not claimed", len(na))
