#!/usr/bin/env python3
"""Generates MANIFEST.json from the table below (kept in one place so that it stays valid)."""
import json
claimed = {
 "C07": ("S2 schedule DFS (preemption-bounded, exhaustive) over the real server + S1 history BFS",
         "Every lock/channel-granularity interleaving (<=2 preemptions quick, <=3 thorough) of the four named join/leave/create races, plus membership histories, executed on the real RealtimeHandler/SessionStore over an in-memory wire; registry/gauge/worker/no-orphan invariants and a probe joiner in every final state.",
         "6"),
}
NA = {}
props = [json.loads(l) for l in open("/verif/properties.jsonl")]
checks = []
for p in props:
    pid = p["id"]
    if pid not in claimed: continue
    tech, text, sec = claimed[pid]
    checks.append({
        "property_id": pid,
        "quick_cmd": f"./run.sh check {pid} quick",
        "thorough_cmd": f"./run.sh check {pid} thorough",
        "evidence_file": f"/verif/evidence/{pid}.json",
        "replay_cmd_template": "./run.sh replay {path}",
        "engine": "vrt",
        "level_claimed": {"category": "model_checking", "text": text, "design_ref": f"DESIGN.md section {sec} ({pid})"},
        "level_note": "Trusted: the vinstr source rewriter (sync/time/chan/select/go/map-range -> scheduler hooks), the vrt scheduler, the in-memory pipe standing in for TCP, the bounds stated in the evidence file; scheduling points only at synchronisation operations.",
        "technique": tech,
    })
na = [{"property_id": p["id"], "reason": NA.get(p["id"], "check not built yet in this session; planned (see DESIGN.md section 6)")} for p in props if p["id"] not in claimed]
m = {
 "version": 1,
 "setup_cmd": "./run.sh setup",
 "hooks": {"guard": "verif", "enable": "no hooks are committed to /repo: ./run.sh rewrites the current /repo sources (cmd/vinstr, go/ast) into /verif/.build/overlay and builds with `go build -overlay ... ` (GODEBUG=goindex=0)",
           "baseline_off_cmd": "cd /repo && GOFLAGS=-mod=mod GOPROXY=off GOSUMDB=off GOTOOLCHAIN=local go test -vet=off -count=1 -timeout 25m ./...",
           "source_commits": [], "add_only": True},
 "engines": [{"name": "vrt", "path": "/verif/vrt", "serves_properties": sorted(claimed), "kind_free_text": "hand-written controlled cooperative scheduler + deviation-bounded stateless DFS and explicit-state BFS over the real, AST-instrumented hagall sources"}],
 "checks": checks,
 "not_applicable": na,
 "notes": "All checks rebuild from /repo's working tree on every invocation. Exit 0 held / 1 VIOLATION / 2 cannot build or engine error.",
}
json.dump(m, open("/verif/MANIFEST.json", "w"), indent=1)
print("claimed", sorted(claimed), "not claimed", len(na))
